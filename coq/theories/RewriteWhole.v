(** * RewriteWhole (C20, local rewrites, part 2): two inputs whose definitions are related one by one
    and whose attempts agree produce the same verdict class and, when accepted, the same files.

    The common lemma behind every local rewrite of C20 ([attempt_equiv_same_output]): if the two
    inputs are related by [rewritten_gen D] (RewriteReg.v), the relation [D] keeps the visibility, the
    presence of a leading vftable block and the cleanliness of a description, and the abstract
    attempt functions [att st0] and [att st0'] of the two input states agree at every state below
    the ideal of the first (at the keys unresolved there), then for any two permutation-valued
    schedules the two builds fall in the same verdict class and, when accepted, write the same
    files.  [attempt_equiv_same_output_local] replaces the hypothesis on [att] by one on [attempt]
    in ONE state: the two descriptions of an item give the same outcome class when attempted in
    the (marked) input state of the first input. *)
From Coq Require Import List NArith ZArith Bool Lia String Permutation.
From PyxisModel Require Import Base Sexp Grammar SemTypes Registry Sem Emit SemLemmas ScopeLemmas
     PlacementLemmas TotalityLemmas EmitLemmas WholeBuild Monotone OrderIndep SortUnique
     EmitInvariance FinalState OutputIndep Frame Unrelated ReorderReg ReorderAtt ConfluencePerm Reorder
     RewriteConf RewriteReg.
From PyxisModel Require Confluence.
Import ListNotations.
Local Open Scope string_scope.
Local Open Scope list_scope.

(** a description whose first statement is a vftable block *)
Definition vft_first (gd : gitemdef) : Prop :=
  exists td s rest gfs, gi_inner gd = GIType td /\ gt_stmts td = s :: rest /\ gs_field s = GVftable gfs.

(** what the end-to-end argument needs of the relation between the two descriptions of an item *)
Record good_rel (D : path -> gitemdef -> gitemdef -> Prop) : Prop := {
  gr_refl : forall p d, D p d d;
  gr_vis : forall p d d', D p d d' -> gi_vis d = gi_vis d';
  gr_vft : forall p d d', D p d d' -> (vft_first d <-> vft_first d');
  gr_clean : forall p d d', D p d d' -> clean_def d = clean_def d' }.

Lemma good_rel_flip D : good_rel D -> good_rel (flipD D).
Proof.
  intros [A B C E]. constructor; unfold flipD.
  - intros; apply A.
  - intros p d d' H. symmetry. eapply B; eauto.
  - intros p d d' H. symmetry. eapply C; eauto.
  - intros p d d' H. symmetry. eapply E; eauto.
Qed.

(** ** a generated item of one accepted build is, literally, in the other *)
Lemma gen_item_cross2 ptr1 mods1 st1 ptr2 mods2 st2 oa ob ta tb p ita :
  input_state ptr1 mods1 = Ok st1 -> input_state ptr2 mods2 = Ok st2 ->
  collision_free (st_reg st1) -> collision_free (st_reg st2) ->
  clean_stateb st1 = true -> clean_stateb st2 = true ->
  (forall owner it0 gd, reg_get (st_reg st1) owner = Some it0 -> it_state it0 = Unresolved gd -> vft_first gd ->
     exists it0' gd', reg_get (st_reg st2) owner = Some it0' /\ it_state it0' = Unresolved gd' /\
                      gi_vis gd = gi_vis gd' /\ vft_first gd') ->
  reg_ptr (st_reg st1) = reg_ptr (st_reg st2) ->
  (forall l, Permutation (oa l) l) -> (forall l, Permutation (ob l) l) ->
  pyxis_resolve oa ptr1 mods1 = BOk ta -> pyxis_resolve ob ptr2 mods2 = BOk tb ->
  (forall q, user (st_reg st1) q -> reg_get (st_reg ta) q = reg_get (st_reg tb) q) ->
  reg_get (st_reg st1) p = None -> reg_get (st_reg ta) p = Some ita -> reg_get (st_reg tb) p = Some ita.
Proof.
  intros Hi1 Hi2 Hc1 Hc2 Hl1 Hl2 Hown Hptr Pa Pb Ha Hb Hagr Hnone Hg1.
  destruct (run_facts ptr1 mods1 st1 Hi1 Hc1 Hl1 oa ta Pa Ha) as (sa & Aa & _ & Fa & Sa & _ & Ua).
  destruct (run_facts ptr2 mods2 st2 Hi2 Hc2 Hl2 ob tb Pb Hb) as (sb & Ab & _ & Fb & Sb & _ & Ub).
  pose proof (finish_build_reg _ _ Fa) as Ea. pose proof (finish_build_reg _ _ Fb) as Eb.
  destruct (sim_inv _ _ _ Sa) as [Hpa HIa]. destruct (sim_inv _ _ _ Sb) as [Hpb _].
  rewrite Ea in Hg1. specialize (HIa _ _ Hg1). rewrite Hnone in HIa.
  destruct HIa as (owner & it0 & gd & td & n & rs & Hg0 & Hs0 & Hty & Hvp & Hlen & _).
  destruct Hlen as (s & rest & gfs & _ & _ & _ & _ & Hst & Hf & _).
  destruct (user_resolved ptr1 mods1 st1 Hi1 _ _ _ _ _ Sa Ua Hg0 Hs0) as (ito & r & Hgo1 & Hso1).
  assert (reg_get (st_reg tb) owner = Some ito) as Hgo2.
  { rewrite <- Hagr by (unfold user; congruence). now rewrite Ea. }
  rewrite <- Ea in Hgo1.
  destruct (Hown owner it0 gd Hg0 Hs0) as (it0' & gd' & Hg0' & Hs0' & Hvis & (td' & s' & rest' & gfs' & Hty' & Hst' & Hf')).
  { exists td, s, rest, gfs. auto. }
  destruct (whole_build_vftable oa ptr1 mods1 st1 ta owner it0 gd td ito r s rest gfs Hi1 Hc1 Ha Hg0 Hs0 Hty Hgo1 Hso1 Hst Hf)
    as (_ & _ & _ & fs1 & vp1 & vit1 & td1 & vt1 & _ & _ & _ & _ & Hvp1 & Hvi1 & Hgv1 & Hi1' & Hvt1 & Hfs1 & _).
  destruct (whole_build_vftable ob ptr2 mods2 st2 tb owner it0' gd' td' ito r s' rest' gfs' Hi2 Hc2 Hb Hg0' Hs0' Hty' Hgo2 Hso1 Hst' Hf')
    as (_ & _ & _ & fs2 & vp2 & vit2 & td2 & vt2 & _ & _ & _ & _ & Hvp2 & Hvi2 & Hgv2 & Hi2' & Hvt2 & Hfs2 & _).
  rewrite Hvp in Hvp1, Hvp2. inversion Hvp1; subst vp1. inversion Hvp2; subst vp2.
  rewrite Hi1' in Hi2'. inversion Hi2'; subst td2. rewrite Hvt1 in Hvt2. inversion Hvt2; subst vt2.
  rewrite Hfs1 in Hfs2. subst fs2. rewrite <- Hvis in Hvi2.
  rewrite (vftable_item_ptr (st_reg ta) (st_reg tb)) in Hvi1 by (rewrite Ea, Eb; congruence).
  rewrite Hvi1 in Hvi2. inversion Hvi2; subst vit2.
  rewrite <- Ea in Hg1. rewrite Hg1 in Hgv1. inversion Hgv1; subst vit1. exact Hgv2.
Qed.

Section Cross.
  Variable D : path -> gitemdef -> gitemdef -> Prop.
  Hypothesis HD : good_rel D.
  Variables (ptr : N) (mods mods' : list (path * gmodule)) (st0 st0' : sstate).
  Let R0 := st_reg st0.
  Let R0' := st_reg st0'.
  Hypothesis Hin : input_state ptr mods = Ok st0.
  Hypothesis Hin' : input_state ptr mods' = Ok st0'.
  Hypothesis HX : xrel D st0 st0'.
  Hypothesis Hcf : collision_free R0.
  Hypothesis Hclean : clean_stateb st0 = true.

  Lemma x_ptr : reg_ptr R0 = reg_ptr R0'.
  Proof. apply HX. Qed.
  Lemma x_nodup : NoDup (map fst (reg_types R0)).
  Proof. eapply input_state_nodup; eauto. Qed.
  Lemma x_nodup' : NoDup (map fst (reg_types R0')).
  Proof. eapply input_state_nodup; eauto. Qed.

  Lemma x_get p :
    match reg_get R0 p, reg_get R0' p with
    | Some it, Some it' => item_rel D it it'
    | None, None => True
    | _, _ => False
    end.
  Proof. destruct HX as (HR & _). unfold reg_get, R0, R0'. exact (arel_lookup (item_rel D) _ _ p HR). Qed.

  Lemma x_user k : user R0 k <-> user R0' k.
  Proof. unfold user. fold R0 R0'. pose proof (x_get k) as H. destruct (reg_get R0 k), (reg_get R0' k); try contradiction; split; congruence. Qed.

  Lemma x_has c : reg_has R0' c = reg_has R0 c.
  Proof. symmetry. apply (xrel_reg_has D _ _ c HX). Qed.

  Lemma x_chas : chas R0 R0'.
  Proof. intros c _. apply x_has. Qed.

  (** an unresolved item of one input is an unresolved item of the other, with a related description *)
  Lemma x_unres k it gd : reg_get R0 k = Some it -> it_state it = Unresolved gd ->
    exists it' gd', reg_get R0' k = Some it' /\ it_state it' = Unresolved gd' /\ D k gd gd' /\
                    it_vis it = it_vis it' /\ it_path it = it_path it' /\ it_cat it = it_cat it'.
  Proof.
    intros Hg Hs. pose proof (x_get k) as H. rewrite Hg in H. destruct (reg_get R0' k) as [it'|]; [|contradiction].
    destruct H as (Hv & Hp & Hc & Hst). rewrite Hs in Hst. unfold state_rel in Hst.
    destruct (it_state it') as [gd'|r'] eqn:Es'; [|contradiction].
    exists it', gd'. repeat split; auto.
    assert (it_path it = k) as <- by (apply (input_state_keyed _ _ _ Hin k it); assumption). exact Hst.
  Qed.

  Lemma x_unres' k it' gd' : reg_get R0' k = Some it' -> it_state it' = Unresolved gd' ->
    exists it gd, reg_get R0 k = Some it /\ it_state it = Unresolved gd /\ D k gd gd' /\
                  it_vis it = it_vis it' /\ it_path it = it_path it' /\ it_cat it = it_cat it'.
  Proof.
    intros Hg Hs. pose proof (x_get k) as H. rewrite Hg in H. destruct (reg_get R0 k) as [it|] eqn:Eg; [|contradiction].
    destruct H as (Hv & Hp & Hc & Hst). rewrite Hs in Hst. unfold state_rel in Hst.
    destruct (it_state it) as [gd|r] eqn:Es; [|contradiction].
    exists it, gd. repeat split; auto.
    assert (it_path it = k) as <- by (apply (input_state_keyed _ _ _ Hin k it); assumption). exact Hst.
  Qed.

  Lemma x_resolved k it r : reg_get R0 k = Some it -> it_state it = Resolved r -> reg_get R0' k = Some it.
  Proof.
    intros Hg Hs. pose proof (x_get k) as H. rewrite Hg in H. destruct (reg_get R0' k) as [it'|]; [|contradiction].
    destruct H as (Hv & Hp & Hc & Hst). rewrite Hs in Hst. unfold state_rel in Hst.
    destruct (it_state it') as [gd'|r'] eqn:Es'; [contradiction|]. subst r'.
    f_equal. destruct it, it'. cbn in *. congruence.
  Qed.

  Lemma x_items : items st0 = items st0'.
  Proof.
    unfold items, reg_unresolved. fold R0 R0'. destruct HX as (HR & _). fold R0 R0' in HR.
    induction HR as [|[k it] [k' it'] l l' [Hk (Hv & Hp & Hc & Hst)] _ IH]; cbn [filter map]; [reflexivity|].
    cbn [fst snd] in *. subst k'.
    assert (item_is_predefined it = item_is_predefined it') as -> by (unfold item_is_predefined; now rewrite Hc).
    assert (item_is_resolved it = item_is_resolved it') as ->.
    { unfold item_is_resolved, state_rel in *. destruct (it_state it), (it_state it'); auto; contradiction. }
    destruct (_ && _); cbn [map fst]; now rewrite IH.
  Qed.

  Lemma x_cf' : collision_free R0'.
  Proof.
    intros owner vp Ho Hvp. apply x_user in Ho. specialize (Hcf owner vp Ho Hvp). fold R0 in Hcf.
    pose proof (x_get vp) as H. rewrite Hcf in H. destruct (reg_get R0' vp); [contradiction | reflexivity].
  Qed.

  Lemma x_mods : arel mrelx (st_modules st0) (st_modules st0').
  Proof. apply HX. Qed.

  Lemma mrelx_scope m m' : mrelx m m' -> module_scope m = module_scope m'.
  Proof. intros (A & B & _). unfold module_scope. now rewrite A, B. Qed.

  Lemma mrelx_clean m m' : mrelx m m' -> clean_module m = clean_module m'.
  Proof.
    intros H. pose proof (mrelx_scope _ _ H) as Hsc. destruct H as (_ & _ & _ & He & Hi & _).
    unfold clean_module. now rewrite Hsc, Hi, He.
  Qed.

  Lemma x_clean' : clean_stateb st0' = true.
  Proof.
    unfold clean_stateb in *. apply andb_prop in Hclean as [H1 H2]. apply andb_true_intro. split.
    - pose proof x_mods as HM. clear - HM H1. induction HM as [|km km' l l' [_ Hm] _ IH]; [reflexivity|].
      cbn [forallb] in *. apply andb_prop in H1 as [Ha Hb]. rewrite <- (mrelx_clean _ _ Hm), Ha. now apply IH.
    - rewrite forallb_forall in *. intros [k it'] Hin0. fold R0' in Hin0. cbn [snd].
      destruct (it_state it') as [gd'|r'] eqn:Es'; [|reflexivity].
      apply (in_reg_types_get R0' k it' x_nodup') in Hin0.
      destruct (x_unres' _ _ _ Hin0 Es') as (it & gd & Hg & Hs & Hd & _).
      rewrite <- (gr_clean D HD _ _ _ Hd).
      apply (in_reg_types_get R0 k it x_nodup) in Hg. specialize (H2 _ Hg). cbn [snd] in H2. now rewrite Hs in H2.
  Qed.

  Lemma x_fuel : loop_fuel st0 = loop_fuel st0'.
  Proof. unfold loop_fuel. change (reg_unresolved (st_reg st0)) with (items st0). change (reg_unresolved (st_reg st0')) with (items st0'). now rewrite x_items. Qed.

  (** ** marking a state that resolves every item gives the same registry, as a map *)
  Lemma x_mark_total A1 A2 p :
    (forall k, In k (items st0) -> A1 k = A2 k) -> (forall k, In k (items st0) -> A1 k <> None) ->
    reg_get (mark R0 A1) p = reg_get (mark R0' A2) p.
  Proof.
    intros Hag Htot. rewrite !reg_get_mark.
    destruct (reg_get R0 p) as [it|] eqn:Eg.
    - destruct (it_state it) as [gd|r] eqn:Es.
      + destruct (x_unres _ _ _ Eg Es) as (it' & gd' & Eg' & Es' & _ & Hv & Hp & Hc). rewrite Eg'.
        cbn [option_map]. f_equal. unfold mark_item. cbn [fst snd]. rewrite Es, Es'.
        assert (In p (items st0)) as Hi.
        { unfold items. fold R0. apply (in_reg_unresolved_iff R0 p x_nodup). exists it. split; [exact Eg|].
          split; [|unfold item_is_resolved; now rewrite Es].
          destruct (input_state_wf _ _ _ Hin) as [HU _]. eapply HU; eauto. }
        rewrite <- (Hag p Hi). destruct (A1 p) as [r|] eqn:EA; [|exfalso; now apply (Htot p Hi)].
        cbn [snd]. now rewrite Hv, Hp, Hc.
      + rewrite (x_resolved _ _ _ Eg Es). cbn [option_map]. f_equal. unfold mark_item. cbn [fst snd]. now rewrite Es.
    - pose proof (x_get p) as H. rewrite Eg in H. destruct (reg_get R0' p); [contradiction | reflexivity].
  Qed.

  (** ** two loop states standing for total abstract states that agree on the items *)
  Section Sims.
    Variables (s1 s2 : sstate) (A1 A2 : astate).
    Hypothesis S1 : sim st0 s1 A1.
    Hypothesis S2 : sim st0' s2 A2.
    Hypothesis Hag : forall k, In k (items st0) -> A1 k = A2 k.
    Hypothesis Htot : forall k, In k (items st0) -> A1 k <> None.

    Lemma x_user_agree p : user R0 p -> reg_get (st_reg s1) p = reg_get (st_reg s2) p.
    Proof.
      intros Hu. rewrite (sim_user _ _ _ S1 p Hu), (sim_user _ _ _ S2 p (proj1 (x_user p) Hu)).
      now apply x_mark_total.
    Qed.

    Lemma x_clean_agree k : clean_path k = true -> reg_get (st_reg s1) k = reg_get (st_reg s2) k.
    Proof.
      intros Hc. destruct (reg_get R0 k) eqn:E0.
      - apply x_user_agree. unfold user. fold R0. congruence.
      - assert (~ user R0 k) as Hu by (unfold user; fold R0; congruence).
        assert (~ user R0' k) as Hu' by (rewrite <- x_user; exact Hu).
        now rewrite (sim_clean_nonuser _ _ _ _ S1 Hu Hc), (sim_clean_nonuser _ _ _ _ S2 Hu' Hc).
    Qed.

    Lemma x_impls_ok : impls_ok (st_reg s1) (st_modules s1) = impls_ok (st_reg s2) (st_modules s2).
    Proof.
      rewrite (impls_ok_rel _ _ _ (sim_mods _ _ _ S1)), (impls_ok_rel _ _ _ (sim_mods _ _ _ S2)).
      destruct (clean_stateb_sound _ Hclean) as [Hm _].
      pose proof x_mods as HM. unfold impls_ok.
      induction HM as [|km km' l l' [_ Hmr] _ IH]; cbn [forallb]; [reflexivity|].
      rewrite IH by (intros; apply Hm; now right). f_equal.
      destruct Hmr as (_ & _ & _ & _ & Hi & _). rewrite <- Hi. apply forallb_ext_in. intros kb Hkb.
      pose proof (Hm km (or_introl eq_refl)) as Hc. unfold clean_module in Hc. apply andb_prop in Hc as [_ Hc].
      apply andb_prop in Hc as [Hc _]. rewrite forallb_forall in Hc. specialize (Hc _ Hkb).
      unfold impl_is_defined_type. now rewrite (x_clean_agree _ Hc).
    Qed.

    Lemma x_all_evs_ok :
      all_evs_ok (st_reg s1) (st_modules s1) = all_evs_ok (st_reg s2) (st_modules s2).
    Proof.
      destruct (clean_stateb_sound _ Hclean) as [Hm _]. destruct (clean_stateb_sound _ x_clean') as [Hm' _].
      assert (forall st s A, sim st s A -> chas (st_reg st) (st_reg s)) as HC
          by (intros st s A HS; apply reach_chas; split; [apply (sim_inv _ _ _ HS) | apply (sim_present _ _ _ HS)]).
      rewrite (all_evs_rel st0 _ (HC _ _ _ S1) _ _ (sim_mods _ _ _ S1) Hm).
      rewrite (all_evs_rel st0' _ (HC _ _ _ S2) _ _ (sim_mods _ _ _ S2) Hm').
      pose proof x_mods as HM. unfold all_evs_ok. clear Hm'.
      induction HM as [|km km' l l' [_ Hmr] _ IH]; cbn [forallb]; [reflexivity|].
      rewrite IH by (intros; apply Hm; now right). f_equal.
      pose proof (Hm km (or_introl eq_refl)) as Hc. unfold clean_module in Hc. apply andb_prop in Hc as [Hc1 Hc2].
      apply andb_prop in Hc1 as [Hcs _]. apply andb_prop in Hc2 as [_ Hce].
      pose proof (mrelx_scope _ _ Hmr) as Hsc. destruct Hmr as (_ & _ & _ & He & _).
      unfold evs_ok. rewrite <- Hsc, <- He. apply forallb_ext_in. intros ev Hev. rewrite forallb_forall in Hce.
      fold R0 R0'. now rewrite (resolve_gtype_reach R0 R0' _ x_chas Hcs _ (Hce _ Hev)).
    Qed.

    Lemma x_finish_class : same_class (finish_build s1) (finish_build s2).
    Proof.
      pose proof (finish_build_class s1) as C1. pose proof (finish_build_class s2) as C2.
      rewrite x_impls_ok, x_all_evs_ok in C1.
      destruct (finish_build s1) as [t1|m1|l1|m1|], (finish_build s2) as [t2|m2|l2|m2|]; cbn [same_class];
        try contradiction; auto.
      - destruct C1 as (_ & I1 & V1). rewrite I1, V1 in C2. discriminate.
      - destruct C1 as (_ & I1 & V1). rewrite I1, V1 in C2. discriminate.
      - destruct C2 as (_ & I2 & V2). rewrite I2, V2 in C1. discriminate.
      - destruct C2 as (_ & I2 & V2). rewrite I2, V2 in C1. discriminate.
    Qed.
  End Sims.

  (** ** accepted runs of the two builds *)
  Section Accepted.
    Variables (o1 o2 : schedule) (t1 t2 : sstate).
    Hypothesis P1 : forall l, Permutation (o1 l) l.
    Hypothesis P2 : forall l, Permutation (o2 l) l.
    Hypothesis H1 : pyxis_resolve o1 ptr mods = BOk t1.
    Hypothesis H2 : pyxis_resolve o2 ptr mods' = BOk t2.
    Variables (s1 s2 : sstate) (A1 A2 : astate).
    Hypothesis S1 : sim st0 s1 A1.
    Hypothesis S2 : sim st0' s2 A2.
    Hypothesis Hag : forall k, In k (items st0) -> A1 k = A2 k.
    Hypothesis Htot : forall k, In k (items st0) -> A1 k <> None.
    Hypothesis F1 : finish_build s1 = BOk t1.
    Hypothesis F2 : finish_build s2 = BOk t2.
    Hypothesis L1 : LInv st0 s1.
    Hypothesis L2 : LInv st0' s2.

    Lemma x_final_regs : reg_same (st_reg t1) (st_reg t2).
    Proof.
      pose proof (finish_build_reg _ _ F1) as E1. pose proof (finish_build_reg _ _ F2) as E2.
      assert (forall q, user R0 q -> reg_get (st_reg t1) q = reg_get (st_reg t2) q) as Hu.
      { intros q Hq. rewrite E1, E2. now apply (x_user_agree s1 s2 A1 A2 S1 S2 Hag Htot). }
      intros p. destruct (reg_get R0 p) as [it0|] eqn:E0; [apply Hu; unfold user; fold R0; congruence|].
      destruct (reg_get (st_reg t1) p) as [it1|] eqn:G1.
      - symmetry. eapply (gen_item_cross2 ptr mods st0 ptr mods' st0' o1 o2 t1 t2); eauto.
        + apply x_cf'.
        + apply x_clean'.
        + intros owner it gd Hg Hs Hv. destruct (x_unres _ _ _ Hg Hs) as (it' & gd' & Hg' & Hs' & Hd & _).
          exists it', gd'. repeat split; auto; [eapply (gr_vis D HD); eauto | now apply (gr_vft D HD _ _ _ Hd)].
        + apply x_ptr.
      - destruct (reg_get (st_reg t2) p) as [it2|] eqn:G2; [|reflexivity].
        rewrite <- G1. eapply (gen_item_cross2 ptr mods' st0' ptr mods st0 o2 o1 t2 t1); eauto.
        + apply x_cf'.
        + apply x_clean'.
        + intros owner it' gd' Hg' Hs' Hv. destruct (x_unres' _ _ _ Hg' Hs') as (it & gd & Hg & Hs & Hd & _).
          exists it, gd. repeat split; auto; [symmetry; eapply (gr_vis D HD); eauto | now apply (gr_vft D HD _ _ _ Hd)].
        + symmetry. apply x_ptr.
        + intros q Hq. symmetry. apply Hu. now apply x_user.
        + fold R0'. pose proof (x_get p) as H. fold R0 in E0. rewrite E0 in H. destruct (reg_get R0' p); [contradiction | reflexivity].
    Qed.

    Lemma x_final_length : List.length (reg_types (st_reg t1)) = List.length (reg_types (st_reg t2)).
    Proof.
      apply alookup_same_length.
      - rewrite (finish_build_reg _ _ F1). eapply evolves_nodup; [exact x_nodup | apply (sim_ev _ _ _ S1)].
      - rewrite (finish_build_reg _ _ F2). eapply evolves_nodup; [exact x_nodup' | apply (sim_ev _ _ _ S2)].
      - exact x_final_regs.
    Qed.

    Lemma x_mods_loop :
      Forall2 (fun km1 km2 => fst km1 = fst km2 /\ mod_loop_w (snd km1) (snd km2)) (st_modules s1) (st_modules s2).
    Proof.
      destruct L1 as (_ & _ & [HK1 HD1]). destruct L2 as (_ & _ & [HK2 HD2]).
      destruct (input_state_wf _ _ _ Hin) as [_ [HN _]].
      pose proof x_mods as HM.
      assert (reg_same (st_reg s1) (st_reg s2)) as HRs.
      { intros p. rewrite <- (finish_build_reg _ _ F1), <- (finish_build_reg _ _ F2). apply x_final_regs. }
      apply (Forall2_of_alookup mod_loop_w).
      - now rewrite HK1.
      - rewrite HK1, HK2. now apply (arel_keys mrelx).
      - intros k m1 m2 G1 G2.
        destruct (HD1 _ _ G1) as (m0 & Hm0 & Hs1 & Hn1 & Hset1).
        destruct (HD2 _ _ G2) as (m0' & Hm0' & Hs2 & Hn2 & Hset2).
        pose proof (arel_lookup mrelx _ _ k HM) as Hl. rewrite Hm0, Hm0' in Hl.
        pose proof (mrelx_scope _ _ Hl) as Hsc.
        destruct Hl as (_ & _ & Hdp & He & _ & Hb & Hd).
        destruct Hs1 as (a1 & b1 & c1 & d1 & e1 & f1). destruct Hs2 as (a2 & b2 & c2 & d2 & e2 & f2).
        unfold mod_loop_w. split; [|split; [congruence | split; [congruence | split; [congruence|]]]].
        + unfold module_scope in *. rewrite a1, b1, a2, b2. exact Hsc.
        + apply NoDup_Permutation; [exact Hn1 | exact Hn2|].
          intros p. rewrite Hset1, Hset2, Hdp. unfold gen_in. fold R0 R0'.
          rewrite (HRs p).
          assert (reg_get R0 p = None <-> reg_get R0' p = None) as ->; [|tauto].
          pose proof (x_get p) as H. destruct (reg_get R0 p), (reg_get R0' p); try contradiction; split; congruence.
    Qed.

    Theorem x_write_all : write_all t1 = write_all t2.
    Proof.
      apply write_all_same.
      - exact x_final_regs.
      - rewrite (finish_build_reg _ _ F1). apply L1.
      - exact x_final_length.
      - eapply finish_build_out_rel_w; [| exact x_mods_loop | exact F1 | exact F2].
        intros p. rewrite <- (finish_build_reg _ _ F1), <- (finish_build_reg _ _ F2). apply x_final_regs.
    Qed.
  End Accepted.

  (** ** the two loops *)
  Hypothesis Hatt : forall T, Confluence.ideal path resolved path_eqb (att st0) (items st0) (fun _ => None) T ->
    forall A k, Confluence.le path resolved A T -> In k (items st0) -> A k = None -> att st0 A k = att st0' A k.

  Definition xloop_rel (r1 r2 : build_result) : Prop :=
    match r1, r2 with
    | BOk s1, BOk s2 => exists A1 A2, sim st0 s1 A1 /\ sim st0' s2 A2 /\ (forall k, In k (items st0) -> A1 k = A2 k) /\
                                      (forall k, In k (items st0) -> A1 k <> None)
    | BNoProgress l1, BNoProgress l2 => Permutation l1 l2
    | BErr _, BErr _ | BErr _, BPanic _ | BPanic _, BErr _ | BPanic _, BPanic _ => True
    | _, _ => False
    end.

  Theorem rewrite_loops o1 o2 :
    (forall l, Permutation (o1 l) l) -> (forall l, Permutation (o2 l) l) ->
    xloop_rel (resolve_loop o1 (loop_fuel st0) st0) (resolve_loop o2 (loop_fuel st0') st0').
  Proof.
    intros P1 P2.
    destruct (clean_stateb_sound _ Hclean) as [Hm Hd]. destruct (clean_stateb_sound _ x_clean') as [Hm' Hd'].
    pose proof (input_state_keyed _ _ _ Hin) as HK0. pose proof (input_state_keyed _ _ _ Hin') as HK0'.
    pose proof (reg_u8_user _ (input_state_u8 _ _ _ Hin)) as Hu8.
    pose proof (reg_u8_user _ (input_state_u8 _ _ _ Hin')) as Hu8'.
    pose proof (loop_sim st0 Hcf Hu8 Hm Hd HK0 x_nodup o1 P1 (loop_fuel st0) _ _ (sim_init st0 HK0)) as S1.
    pose proof (loop_sim st0' x_cf' Hu8' Hm' Hd' HK0' x_nodup' o2 P2 (loop_fuel st0') _ _ (sim_init st0' HK0')) as S2.
    assert (forall st, List.length (Confluence.unres path resolved (items st) (fun _ => None)) < loop_fuel st) as Hf.
    { intros st. unfold Confluence.unres. rewrite filter_all_true; [unfold loop_fuel, items; lia | reflexivity]. }
    pose proof (order_independent_below path resolved path_eqb path_eqb_spec (att st0) (att st0')
                  (att_M1 st0 Hcf Hu8 Hm Hd) (att_M2 st0 Hcf Hu8 Hm Hd)
                  (att_M1 st0' x_cf' Hu8' Hm' Hd') (att_M2 st0' x_cf' Hu8' Hm' Hd')
                  (items st0) (items st0') (fun k => eq_ind _ (fun l => In k (items st0) <-> In k l) (iff_refl _) _ x_items)
                  (fun _ => None)
                  (fun T HT A k _ HA Hk Hn => Hatt T HT A k HA Hk Hn)
                  o1 o2 P1 P2
                  (loop_fuel st0) (loop_fuel st0') (Hf st0) (Hf st0')) as OI.
    destruct (resolve_loop o1 (loop_fuel st0) st0) as [s1|m1|l1|m1|] eqn:EL1,
             (Confluence.loop _ _ _ (att st0) _ o1 _ _ _) as [A1|A1| |];
      cbn [abs_result] in S1; try contradiction;
    destruct (resolve_loop o2 (loop_fuel st0') st0') as [s2|m2|l2|m2|] eqn:EL2,
             (Confluence.loop _ _ _ (att st0') _ o2 _ _ _) as [A2|A2| |];
      cbn [abs_result] in S2; try contradiction; cbn [same_outcome2 xloop_rel] in *; try contradiction; auto.
    - exists A1, A2. split; [exact S1|]. split; [exact S2|]. split; [exact OI|].
      intros k Hk HA. pose proof (resolve_loop_ok_unresolved o1 P1 _ _ _ EL1) as HU.
      rewrite (sim_unresolved st0 x_nodup _ _ S1) in HU.
      assert (In k (Confluence.unres path resolved (items st0) A1)) as X by (apply Confluence.unres_in; tauto).
      rewrite HU in X. destruct X.
    - eapply Permutation_trans; [exact S1|]. eapply Permutation_trans; [|apply Permutation_sym; exact S2].
      rewrite <- x_items.
      assert (Confluence.unres _ _ (items st0) A1 = Confluence.unres _ _ (items st0) A2) as ->; [|apply Permutation_refl].
      unfold Confluence.unres. apply filter_ext_in. intros k Hk. unfold Confluence.isnone. now rewrite (OI k Hk).
  Qed.

  (** ** the whole front half, and the output *)
  Theorem rewrite_same_output o1 o2 :
    (forall l, Permutation (o1 l) l) -> (forall l, Permutation (o2 l) l) ->
    match pyxis_resolve o1 ptr mods, pyxis_resolve o2 ptr mods' with
    | BOk s1, BOk s2 => write_all s1 = write_all s2
    | BOk _, _ | _, BOk _ => False
    | _, _ => True
    end.
  Proof.
    intros P1 P2. pose proof (rewrite_loops o1 o2 P1 P2) as HL.
    pose proof (pyxis_resolve_sem_build ptr mods st0 Hin o1) as E1.
    pose proof (pyxis_resolve_sem_build ptr mods' st0' Hin' o2) as E2.
    unfold sem_build in E1, E2. fold R0 in E1. fold R0' in E2.
    change (S (List.length (reg_unresolved R0))) with (loop_fuel st0) in E1.
    change (S (List.length (reg_unresolved R0'))) with (loop_fuel st0') in E2.
    destruct (resolve_loop o1 (loop_fuel st0) st0) as [s1|m1|l1|m1|] eqn:EL1,
             (resolve_loop o2 (loop_fuel st0') st0') as [s2|m2|l2|m2|] eqn:EL2;
      cbn [xloop_rel] in HL; try contradiction; rewrite E1, E2; try exact I.
    destruct HL as (A1 & A2 & S1 & S2 & Hag & Htot). cbv iota beta in E1, E2 |- *.
    pose proof (x_finish_class s1 s2 A1 A2 S1 S2 Hag Htot) as HC.
    destruct (finish_build s1) as [t1|x1|x1|x1|] eqn:F1, (finish_build s2) as [t2|x2|x2|x2|] eqn:F2;
      cbn [same_class] in HC; try contradiction; try exact I.
    pose proof (input_state_keyed _ _ _ Hin) as HK0. pose proof (input_state_keyed _ _ _ Hin') as HK0'.
    destruct (input_state_wf _ _ _ Hin) as [_ HW]. destruct (input_state_wf _ _ _ Hin') as [_ HW'].
    eapply (x_write_all o1 o2 t1 t2 P1 P2 E1 E2 s1 s2 A1 A2 S1 S2 Hag Htot F1 F2).
    - eapply resolve_loop_LInv; [exact Hcf | | exact EL1]. now apply LInv_init.
    - eapply resolve_loop_LInv; [exact x_cf' | | exact EL2]. now apply LInv_init.
  Qed.

  Theorem rewrite_same_build o1 o2 :
    (forall l, Permutation (o1 l) l) -> (forall l, Permutation (o2 l) l) ->
    same_build2 (pyxis_resolve o1 ptr mods) (pyxis_resolve o2 ptr mods').
  Proof.
    intros P1 P2. pose proof (rewrite_loops o1 o2 P1 P2) as HL.
    pose proof (pyxis_resolve_sem_build ptr mods st0 Hin o1) as E1.
    pose proof (pyxis_resolve_sem_build ptr mods' st0' Hin' o2) as E2.
    unfold sem_build in E1, E2. fold R0 in E1. fold R0' in E2.
    change (S (List.length (reg_unresolved R0))) with (loop_fuel st0) in E1.
    change (S (List.length (reg_unresolved R0'))) with (loop_fuel st0') in E2.
    destruct (resolve_loop o1 (loop_fuel st0) st0) as [s1|m1|l1|m1|] eqn:EL1,
             (resolve_loop o2 (loop_fuel st0') st0') as [s2|m2|l2|m2|] eqn:EL2;
      cbn [xloop_rel] in HL; try contradiction; rewrite E1, E2; try exact I; try exact HL.
    destruct HL as (A1 & A2 & S1 & S2 & Hag & Htot). cbv iota beta in E1, E2 |- *.
    pose proof (x_finish_class s1 s2 A1 A2 S1 S2 Hag Htot) as HC. pose proof (finish_build_class s1) as K1.
    destruct (finish_build s1) as [t1|x1|x1|x1|] eqn:F1, (finish_build s2) as [t2|x2|x2|x2|] eqn:F2;
      cbn [same_class] in HC; try contradiction; try exact I.
    cbn [same_build2]. split.
    - exact (x_final_regs o1 o2 t1 t2 P1 P2 E1 E2 s1 s2 A1 A2 S1 S2 Hag Htot F1 F2).
    - exact (x_final_length o1 o2 t1 t2 P1 P2 E1 E2 s1 s2 A1 A2 S1 S2 Hag Htot F1 F2).
  Qed.
End Cross.
