"""Execution oracle: what the emitted wrappers and accessors DO when they run (C04, C05, C06, C07, C15).

The crate emitted by the real pyxis (pointer width 8 = the host) is compiled together with a generated
test driver into an executable, the executable is run, and every wrapper / forwarder / accessor is called
once on a prepared object.  What it did is observed from outside the emitted code:

  * absolute addresses (#[address], #[singleton], extern values) come from a CONTROLLED POOL (gen.py option
    `addr_pool`): one anonymous RWX mapping at POOL_BASE, one slot of POOL_STRIDE bytes per address;
  * at the address of every impl function the driver writes a 13-byte trampoline
        49 BB <imm64>   movabs r11, <recorder_k>
        41 FF E3        jmp    r11
    to a distinct Rust function `rec::<k>` (a "recorder"): extern "C", eight u64 parameters = the six integer
    argument registers + the first two stack words, which logs (k, [a0..a7]) and returns a distinctive value;
    every other pool slot holds a trampoline to the STRAY recorder;
  * a vftable is raw memory: an array of recorder addresses, a distinct recorder per slot; an object is raw
    memory of size_of::<T>() bytes whose every word points to a DECOY table (all entries = the DECOY recorder),
    except the word where the description says the table pointer lives, which points to the real table.

Expectations (`methods_of`, `subobjects`, `vft_offset`) are computed from the DESCRIPTION (the generator's
`exp`), never from the emitted text.  Each check is one "group"; the driver prints `RUN i <prop> <label>` before
and `OK i <prop> <label>` / `FAIL i <prop> <label>: <details>` after it, and never panics on a failed comparison.
A group during which the process dies (signal, panic, timeout) is reported as CRASH and the driver is restarted
behind it.

Trusted assumptions
  * x86_64 Linux, System V calling convention: integer/pointer arguments 1..6 in rdi, rsi, rdx, rcx, r8, r9,
    further ones in 8-byte stack slots, result in rax; the bits of a register above the declared width of an
    argument are unspecified (comparisons are modulo 2^width); r11 is a scratch register, so the trampoline
    preserves every argument and the stack (checked at start by the SELF groups).
  * rustc_oracle.assemble normalises every calling-convention string to "C" (thiscall & co. do not exist on the
    64-bit host): the oracle says nothing about calling conventions (C16).
  * signatures are restricted (gen.py option sig_types="word") to integers of at most 64 bits and pointers.
  * sizes and field offsets of the emitted structs are rustc's (size_of) resp. the description's (sub-object
    offsets); that the two agree is the business of C01/C02 (rustc_layout_stage).

Entry points
  exec_stage(pid, tier, seed, scratch, mutate=None) -> (failures, counts)      the stage (pattern of props.rustc_layout_stage)
  exec_case(hres, exp, workdir, name, mutate=None) -> dict(status, codes, stderr, groups, ...)   one accepted case
  python3 tools/exec_oracle.py <pid> [quick|thorough] [seed]      run a stage and print its counts
  python3 tools/exec_oracle.py show <pid> <gseed>                 one input of the stream and every group's verdict
  python3 tools/exec_validate.py a|b                              the validation runs (unchanged pyxis / mutated output)
`mutate(relative path, emitted text, exp) -> text` rewrites the emitted files before they are compiled.
"""
import collections
import os
import re
import subprocess

import rustc_oracle

POOL_BASE, POOL_STRIDE, POOL_COUNT = 0x50000000, 0x40, 1024
POOL_RESERVED = 8           # the last slots of the pool belong to the driver's self test
GEN_POOL = (POOL_BASE, POOL_STRIDE, POOL_COUNT - POOL_RESERVED)
COMPILE_TIMEOUT, RUN_TIMEOUT, MAX_RESTARTS = 120, 10, 25
PROPS_SERVED = ("C04", "C05", "C06", "C07", "C15")

# what every exec profile adds to the property's own profile (see the module comment)
EXEC_BASE = dict(p_pub=1.0, p_fn_pub=0.9, p_vfunc_no_self=0.0, miss=0.0, p_slot_mut=0.0, p_backend=0.0,
                 p_packed=0.04, private_static_fns=True, addr_pool=GEN_POOL, sig_types="word")


def exec_profile(pid):
    import props
    own = {"C04": props.PROPS["C04"]["profile"], "C05": props.FUNC_PROFILE, "C06": props.INHERIT_PROFILE,
           "C07": props.INHERIT_PROFILE, "C15": dict(props.PROPS["C15"]["profile"], p_impl=0.3)}[pid]
    return dict(own, **EXEC_BASE)


# ================================================================================================
# 1. What the description says: the expected behaviour of every callable of every type
# ================================================================================================
class Method:
    """one function the emitted `impl <type>` is expected to offer, and what calling it must do"""

    def __init__(self, name, desc, target, recv_off=0, via=(), pub=True):
        self.name = name            # its name on this type
        self.desc = desc            # the declaration it goes back to (selfkind, args, ret)
        self.target = target        # ("addr", A)  |  ("slot", offset of the table pointer in the object, index)
        self.recv_off = recv_off    # offset of the sub-object whose address the callee must receive
        self.via = via              # base fields it is forwarded through, outermost first
        self.pub = pub

    def shifted(self, name, field, off):
        t = self.target
        if t[0] == "slot":
            t = ("slot", t[1] + off, t[2])
        return Method(name, self.desc, t, self.recv_off + off, (field,) + self.via, self.pub)


def field_offset(t, fname):
    return [f[1] for f in t["fields"] if f[0] == fname][0]


def vft_offset(exp, tpath):
    """offset of the word of a `tpath` object that holds its vftable pointer: its own first field, or the
    pointer of its first base (None: the type has no vftable)"""
    t = exp["types"][tpath]
    if t["own_vftable"]:
        return 0
    if not t["has_vftable"]:
        return None
    fname, bpath = t["base_fields"][0]
    return field_offset(t, fname) + vft_offset(exp, bpath)


def virtuals_of(exp, tpath):
    """wrappers of the named slots of the type's table (C04): receiver = the object itself"""
    t = exp["types"][tpath]
    off = vft_offset(exp, tpath)
    return [Method(d["name"], d, ("slot", off, i), pub=d["pub"])
            for i, d in enumerate(t.get("slot_descs") or []) if d]


def assoc_of(exp, tpath, memo):
    """forwarded functions (C07: one per public associated function of each base, and per public virtual
    function of the bases after the first; named g, or <field>_<g> when g is taken) followed by the type's own
    impl functions (C05)"""
    if tpath in memo:
        return memo[tpath]
    t = exp["types"][tpath]
    used = set(d["name"] if d else "_vfunc_%d" % k for k, d in enumerate(t.get("slot_descs") or []))
    out = []
    for i, (fname, bpath) in enumerate(t.get("base_fields") or []):
        off = field_offset(t, fname)
        cands = [m for m in assoc_of(exp, bpath, memo) if m.pub]
        if i > 0:
            cands += [m for m in virtuals_of(exp, bpath) if m.pub]
        for m in cands:
            name = m.name if m.name not in used else "%s_%s" % (fname, m.name)
            used.add(name)
            out.append(m.shifted(name, fname, off))
    for d in t["impls"]:
        out.append(Method(d["name"], d, ("addr", d["address"]), pub=d["pub"]))
    memo[tpath] = out
    return out


def subobjects(exp, tpath, prefix=(), base_off=0):
    """[(field path, type path, offset)] of all base sub-objects, transitively"""
    out = []
    t = exp["types"].get(tpath)
    for fname, bpath in (t or {}).get("base_fields") or []:
        off = base_off + field_offset(t, fname)
        out.append((prefix + (fname,), bpath, off))
        out.extend(subobjects(exp, bpath, prefix + (fname,), off))
    return out


BITS = {"u8": 8, "i8": 8, "u16": 16, "i16": 16, "u32": 32, "i32": 32, "u64": 64, "i64": 64}


def bits_of(ttext):
    """width of a parameter / return type in a register, None when the driver cannot handle the type"""
    if ttext.startswith("*"):
        return 64
    return BITS.get(ttext)


# ================================================================================================
# 2. The driver: constant run-time support ...
# ================================================================================================
SUPPORT_RS = r'''
pub mod __exec {
    //! Run-time support of the execution oracle (constant text, see tools/exec_oracle.py).
    use std::sync::atomic::{AtomicUsize, Ordering};
    use std::sync::Mutex;

    pub const POOL_BASE: usize = @@POOL_BASE@@;
    pub const POOL_STRIDE: usize = @@POOL_STRIDE@@;
    pub const POOL_COUNT: usize = @@POOL_COUNT@@;
    /// number of numbered recorders: one per address-bound function, then one per vftable slot, then the self test's
    pub const N: usize = @@N@@;
    /// recorder of the first vftable slot (slot i of every real table is recorder SLOT0 + i)
    pub const SLOT0: usize = @@SLOT0@@;
    pub const NSLOTS: usize = @@NSLOTS@@;
    pub const STRAY: usize = 1_000_000;
    pub const DECOY: usize = 1_000_001;

    extern "C" {
        fn mmap(addr: *mut u8, len: usize, prot: i32, flags: i32, fd: i32, offset: i64) -> *mut u8;
    }

    // ---- recorders ---------------------------------------------------------------------------
    pub struct Call { pub k: usize, pub regs: [u64; 8], pub ret: u64 }
    static LOG: Mutex<Vec<Call>> = Mutex::new(Vec::new());

    /// what recorder k returns: every byte differs from recorder to recorder, so a truncated result identifies it
    pub fn ret_of(k: usize) -> u64 {
        0xC3A5_96E1_7D4B_2F00u64.wrapping_add(((k as u64 & 0x7f) + 1).wrapping_mul(0x0101_0101_0101_0101))
    }
    fn record(k: usize, regs: [u64; 8]) -> u64 {
        let ret = ret_of(k);
        LOG.lock().unwrap().push(Call { k, regs, ret });
        ret
    }
    pub type Recorder = extern "C" fn(u64, u64, u64, u64, u64, u64, u64, u64) -> u64;
    extern "C" fn rec<const K: usize>(a0: u64, a1: u64, a2: u64, a3: u64, a4: u64, a5: u64, a6: u64, a7: u64) -> u64 {
        record(K, [a0, a1, a2, a3, a4, a5, a6, a7])
    }
    static RECORDERS: [Recorder; N] = [@@RECORDERS@@];
    static RECORDER_NAMES: [&str; N] = [@@RECORDER_NAMES@@];
    pub fn name_of(k: usize) -> String {
        match k {
            STRAY => "a pool address where nothing is bound".to_string(),
            DECOY => "an entry of a decoy table (the vftable pointer was read from the wrong place)".to_string(),
            _ => format!("recorder {} = {}", k, RECORDER_NAMES[k]),
        }
    }
    fn address_of(k: usize) -> usize {
        match k { STRAY => rec::<STRAY> as usize, DECOY => rec::<DECOY> as usize, _ => RECORDERS[k] as usize }
    }

    // ---- the address pool --------------------------------------------------------------------
    /// movabs r11, target; jmp r11 -- touches neither an argument register nor the stack
    fn trampoline(target: usize) -> [u8; 13] {
        let mut code = [0x49, 0xBB, 0, 0, 0, 0, 0, 0, 0, 0, 0x41, 0xFF, 0xE3];
        code[2..10].copy_from_slice(&(target as u64).to_le_bytes());
        code
    }
    /// maps the pool (read, write, execute; MAP_PRIVATE | MAP_ANONYMOUS | MAP_FIXED_NOREPLACE) and binds every slot to STRAY
    pub unsafe fn pool_init() -> bool {
        let len = POOL_STRIDE * POOL_COUNT;
        let got = mmap(POOL_BASE as *mut u8, len, 1 | 2 | 4, 0x02 | 0x20 | 0x100000, -1, 0);
        if got as usize != POOL_BASE {
            return false;
        }
        for i in 0..POOL_COUNT {
            poke_bytes(POOL_BASE + i * POOL_STRIDE, &trampoline(address_of(STRAY)));
        }
        true
    }
    /// binds the pool address `addr` to recorder k
    pub unsafe fn plant(addr: usize, k: usize) {
        assert!(addr >= POOL_BASE && addr + 13 <= POOL_BASE + POOL_STRIDE * POOL_COUNT, "address outside the pool");
        poke_bytes(addr, &trampoline(address_of(k)));
    }
    pub unsafe fn poke(addr: usize, word: usize) {
        (addr as *mut usize).write_unaligned(word);
    }
    pub unsafe fn poke_bytes(addr: usize, bytes: &[u8]) {
        std::ptr::copy_nonoverlapping(bytes.as_ptr(), addr as *mut u8, bytes.len());
    }

    // ---- objects and tables (raw memory, never freed) ---------------------------------------------
    fn leak_words(words: Vec<usize>, align: usize) -> usize {
        let layout = std::alloc::Layout::from_size_align(words.len() * 8, align.max(16)).unwrap();
        unsafe {
            let p = std::alloc::alloc(layout) as *mut usize;
            assert!(!p.is_null());
            for (i, w) in words.iter().enumerate() {
                p.add(i).write(*w);
            }
            p as usize
        }
    }
    /// a table of n entries, all of them recorder k
    fn table_of(k: usize, n: usize) -> usize {
        leak_words(vec![address_of(k); n], 16)
    }
    /// a vftable: entry i = recorder SLOT0 + i (all NSLOTS of them, so that a read behind the declared end is seen)
    pub fn new_table() -> usize {
        leak_words((0..NSLOTS).map(|i| address_of(SLOT0 + i)).collect(), 16)
    }
    /// size bytes (and some more) aligned to align; every word points to a fresh decoy table
    pub fn new_object(size: usize, align: usize) -> usize {
        let decoy = table_of(DECOY, NSLOTS);
        leak_words(vec![decoy; size / 8 + 2], align)
    }
    /// ... with the size and alignment rustc gives T
    pub fn object_of<T>() -> usize {
        new_object(::std::mem::size_of::<T>(), ::std::mem::align_of::<T>())
    }

    // ---- groups of assertions ----------------------------------------------------------------------
    static FIRST: AtomicUsize = AtomicUsize::new(0);
    pub fn set_first(i: usize) { FIRST.store(i, Ordering::SeqCst); }

    pub struct Group { idx: usize, label: String, problems: Vec<String> }
    /// starts group idx (None when the driver was asked to start behind it) with an empty log
    pub fn begin(idx: usize, label: &str) -> Option<Group> {
        if idx < FIRST.load(Ordering::SeqCst) {
            return None;
        }
        println!("RUN {} {}", idx, label);
        LOG.lock().unwrap().clear();
        Some(Group { idx, label: label.to_string(), problems: Vec::new() })
    }
    fn low(v: u64, bits: u32) -> u64 { if bits >= 64 { v } else { v & ((1u64 << bits) - 1) } }
    impl Group {
        pub fn check(&mut self, what: &str, got: u64, want: u64) {
            if got != want {
                self.problems.push(format!("{}: got {:#x}, expected {:#x}", what, got, want));
            }
        }
        pub fn check_true(&mut self, what: &str, holds: bool) {
            if !holds {
                self.problems.push(format!("{}: does not hold", what));
            }
        }
        /// exactly one call was recorded, it went to recorder k, and its first words are `words` (value, width in bits)
        pub fn expect_call(&mut self, k: usize, words: &[(u64, u32)]) {
            let log = LOG.lock().unwrap();
            if log.len() != 1 {
                let to: Vec<String> = log.iter().map(|c| name_of(c.k)).collect();
                self.problems.push(format!("{} calls instead of exactly one [{}]", log.len(), to.join("; ")));
            }
            if let Some(call) = log.first() {
                if call.k != k {
                    self.problems.push(format!("called {} instead of {}", name_of(call.k), name_of(k)));
                }
                for (i, (want, bits)) in words.iter().enumerate() {
                    if low(call.regs[i], *bits) != low(*want, *bits) {
                        self.problems.push(format!("word {} passed to the callee is {:#x}, expected {:#x} ({} bits)",
                                                   i, low(call.regs[i], *bits), low(*want, *bits), bits));
                    }
                }
            }
        }
        /// no call at all was recorded
        pub fn expect_no_call(&mut self) {
            let n = LOG.lock().unwrap().len();
            if n != 0 {
                self.problems.push(format!("{} calls instead of none", n));
            }
        }
        /// the wrapper returned what the (first) recorded callee returned
        pub fn expect_ret(&mut self, got: u64, bits: u32) {
            if let Some(call) = LOG.lock().unwrap().first() {
                if low(got, bits) != low(call.ret, bits) {
                    self.problems.push(format!("returned {:#x}, the callee returned {:#x} ({} bits)",
                                               low(got, bits), low(call.ret, bits), bits));
                }
            }
        }
        pub fn end(self) {
            if self.problems.is_empty() {
                println!("OK {} {}", self.idx, self.label);
            } else {
                println!("FAIL {} {}: {}", self.idx, self.label, self.problems.join(" | "));
            }
        }
    }

    // ---- the driver checks its own assumptions first ---------------------------------------------------
    pub unsafe fn selftest() {
        if let Some(mut g) = begin(0, "SELF recorders are distinct functions") {
            let mut seen = std::collections::HashSet::new();
            for k in (0..N).chain([STRAY, DECOY]) {
                g.check_true(&format!("recorder {} has an address of its own", k), seen.insert(address_of(k)));
            }
            g.end();
        }
        if let Some(mut g) = begin(1, "SELF a trampoline passes eight words and the result unchanged") {
            let at = POOL_BASE + (POOL_COUNT - 1) * POOL_STRIDE;
            plant(at, N - 1);
            let f: unsafe extern "C" fn(u64, u64, u64, u64, u64, u64, u64, u64) -> u64 = ::std::mem::transmute(at);
            let w: [u64; 8] = [0x1111_0000_0000_0001, 0x2222_0000_0000_0002, 0x3333_0000_0000_0003, 0x4444_0000_0000_0004,
                               0x5555_0000_0000_0005, 0x6666_0000_0000_0006, 0x7777_0000_0000_0007, 0x8888_0000_0000_0008];
            let ret = f(w[0], w[1], w[2], w[3], w[4], w[5], w[6], w[7]);
            let words: Vec<(u64, u32)> = w.iter().map(|v| (*v, 64)).collect();
            g.expect_call(N - 1, &words);
            g.expect_ret(ret, 64);
            g.end();
        }
        if let Some(mut g) = begin(2, "SELF unbound pool addresses and decoy tables are observed") {
            let at = POOL_BASE + (POOL_COUNT - 2) * POOL_STRIDE;
            let f: unsafe extern "C" fn(u64) -> u8 = ::std::mem::transmute(at);
            let ret = f(7);
            g.expect_call(STRAY, &[(7, 64)]);
            g.expect_ret(ret as u64, 8);
            let obj = new_object(24, 8);
            let table = ((obj + 16) as *const usize).read();
            let entry: unsafe extern "C" fn(u16) = ::std::mem::transmute(((table + 8 * (NSLOTS - 1)) as *const usize).read());
            LOG.lock().unwrap().clear();
            entry(9);
            g.expect_call(DECOY, &[(9, 16)]);
            g.end();
        }
    }
}
'''

FIRST_GROUP = 3          # groups 0..2 are the self test

# distinctive argument values: every byte differs from position to position
ARG_VALUES = [0xA0A1A2A3A4A5A6A7 + j * 0x1010101010101010 for j in range(6)]


# ================================================================================================
# 3. ... and the generated part: one group per callable
# ================================================================================================
class Driver:
    """collects the groups of one case; `render` gives the Rust text per module and the main function"""

    def __init__(self, exp):
        self.exp = exp
        self.groups = []                     # (idx, prop, label)
        self.code = collections.defaultdict(list)      # module tuple -> [Rust text of a group]
        self.skipped = collections.Counter()
        self.recorder_names = []             # recorder k -> what it stands for
        self.addr_recorder = {}              # absolute address -> recorder k
        self.plants = []
        for tpath in sorted(exp["types"]):
            for d in exp["types"][tpath]["impls"]:
                self.bind(d["address"], "address %#x (%s::%s)" % (d["address"], tpath, d["name"]))
        self.slot0 = len(self.recorder_names)
        self.nslots = max([len(t.get("slot_descs") or []) for t in exp["types"].values()] + [0]) + 8
        self.recorder_names += ["vftable slot %d" % i for i in range(self.nslots)]
        self.recorder_names.append("the self test's recorder")

    def bind(self, addr, what):
        if addr not in self.addr_recorder:
            self.addr_recorder[addr] = len(self.recorder_names)
            self.recorder_names.append(what)
            self.plants.append((addr, self.addr_recorder[addr]))

    # -- one group ---------------------------------------------------------------------------------
    def group(self, mod, prop, label, body):
        idx = FIRST_GROUP + len(self.groups)
        self.groups.append((idx, prop, label))
        text = "    if let Some(mut g) = x::begin(%d, %s) {\n" % (idx, rust_str("%s %s" % (prop, label)))
        text += "".join("        %s\n" % ln for ln in body)
        text += "        g.end();\n    }\n"
        self.code[mod].append(text)

    def call_group(self, tpath, m, prop, kind):
        """call the method on a prepared object; expect one call to its target with receiver and arguments"""
        d = m.desc
        widths = [bits_of(t) for _, t in d["args"]] + ([bits_of(d["ret"])] if d["ret"] else [])
        if None in widths or len(d["args"]) > len(ARG_VALUES) or len(d["args"]) + (1 if d["selfkind"] else 0) > 8:
            self.skipped["signature outside the driver's fragment"] += 1
            return
        ty = "crate::" + tpath
        body = ["let obj = x::object_of::<%s>();" % ty]
        if m.target[0] == "slot":
            _, ptr_off, index = m.target
            body.append("x::poke(obj + %d, x::new_table());" % ptr_off)
            want_k = "x::SLOT0 + %d" % index
            goes_to = "slot %d of the table at +%d" % (index, ptr_off)
        else:
            want_k = "%d" % self.addr_recorder[m.target[1]]
            goes_to = "address %#x" % m.target[1]
        actual, words = [], []
        if d["selfkind"]:
            actual.append("&mut *(obj as *mut %s)" % ty if d["selfkind"] == "&mut self" else "&*(obj as *const %s)" % ty)
            words.append("((obj + %d) as u64, 64)" % m.recv_off)
        for j, (_, t) in enumerate(d["args"]):
            if t.startswith("*"):
                actual.append("%#xusize as %s _" % (ARG_VALUES[j], "*mut" if t.startswith("*mut") else "*const"))
            else:
                actual.append("%#xu64 as _" % ARG_VALUES[j])
            words.append("(%#x, %d)" % (ARG_VALUES[j], bits_of(t)))
        call = "%s::%s(%s)" % (ty, m.name, ", ".join(actual))
        body.append(("let ret = %s;" if d["ret"] else "%s;") % call)
        body.append("g.expect_call(%s, &[%s]);" % (want_k, ", ".join(words)))
        if d["ret"]:
            body.append("g.expect_ret(ret as u64, %d);" % bits_of(d["ret"]))
        via = " = %s.%s" % (".".join(m.via), d["name"]) if m.via else ""
        recv = (" receiver +%d" % m.recv_off) if d["selfkind"] else " no receiver"
        self.group(mod_of(tpath), prop, "%s %s::%s%s -> %s,%s" % (kind, tpath, m.name, via, goes_to, recv), body)

    # -- all groups of a case -------------------------------------------------------------------------
    def build(self):
        exp = self.exp
        memo = {}
        for tpath in sorted(exp["types"]):
            t = exp["types"][tpath]
            mod = mod_of(tpath)
            ty = "crate::" + tpath
            new_obj = "let obj = x::object_of::<%s>();" % ty
            # C05 / C07: own impl functions and forwarded base functions
            for m in assoc_of(exp, tpath, memo):
                if m.via:
                    self.call_group(tpath, m, "C07", "forward-impl" if m.target[0] == "addr" else "forward-virtual")
                else:
                    self.call_group(tpath, m, "C05", "impl" if m.desc["selfkind"] else "impl-static")
            # C04: the wrappers of the (own or inherited) virtual functions
            for m in virtuals_of(exp, tpath) if t["has_vftable"] else []:
                # "-displaced": the first base (and with it the shared table pointer) is not at offset 0
                self.call_group(tpath, m, "C04", "virtual" if t["own_vftable"] else
                                "virtual-inherited" + ("-displaced" if vft_offset(exp, tpath) else ""))
            # C04 / C06: the vftable() accessor
            if t["has_vftable"]:
                off = vft_offset(exp, tpath)
                self.group(mod, "C04" if t["own_vftable"] else "C06",
                           "accessor%s %s::vftable reads the table pointer at +%d%s" % (
                               "-displaced" if off else "", tpath, off, "" if t["own_vftable"] else " (of base %s)" % t["base_fields"][0][0]),
                           [new_obj, "let table = x::new_table();",
                            "x::poke(obj + %d, table);" % off,
                            'g.check("vftable()", %s::vftable(&*(obj as *const %s)) as usize as u64, table as u64);' % (ty, ty),
                            "g.expect_no_call();"])
            # C07: AsRef / AsMut to every base type that occurs exactly once, and to the type itself
            subs = subobjects(exp, tpath)
            occurs = collections.Counter(b for _, b, _ in subs)
            for path, bpath, off in [((), tpath, 0)] + [s for s in subs if occurs[s[1]] == 1 and s[1] != tpath]:
                bty = "crate::" + bpath
                self.group(mod, "C07", "%s %s -> %s at +%d%s" % ("asref-base" if path else "asref-self", tpath, bpath, off,
                                                              " (%s)" % ".".join(path) if path else ""),
                           [new_obj,
                            'g.check("as_ref()", <%s as ::std::convert::AsRef<%s>>::as_ref(&*(obj as *const %s)) as *const %s as usize as u64, (obj + %d) as u64);'
                            % (ty, bty, ty, bty, off),
                            'g.check("as_mut()", <%s as ::std::convert::AsMut<%s>>::as_mut(&mut *(obj as *mut %s)) as *mut %s as usize as u64, (obj + %d) as u64);'
                            % (ty, bty, ty, bty, off),
                            "g.expect_no_call();"])
            # C15: struct singleton
            if t.get("singleton") is not None:
                a = t["singleton"]
                self.group(mod, "C15", "singleton %s::get reads the pointer at %#x" % (tpath, a),
                           [new_obj, "x::poke(%#x, obj);" % a,
                            "match %s::get() {" % ty,
                            '    Some(r) => g.check("get() with a pointer stored", r as *mut %s as usize as u64, obj as u64),' % ty,
                            '    None => g.check_true("get() with a pointer stored is Some", false),',
                            "}",
                            "x::poke(%#x, 0);" % a,
                            'g.check_true("get() with null stored is None", %s::get().is_none());' % ty,
                            "g.expect_no_call();"])
        # C15: enum singletons return the value stored at A
        for epath in sorted(exp["enums"]):
            e = exp["enums"][epath]
            if e.get("singleton") is None:
                continue
            a, base = e["singleton"], e["base"]
            body = []
            for vname, v in (e["cases"][:1] + e["cases"][-1:]):
                lit = "(%di128)" % v
                body += ["x::poke_bytes(%#x, &(%s as %s).to_le_bytes());" % (a, lit, base),
                         'g.check_true("get() with %s stored", crate::%s::get() == crate::%s::%s);' % (vname, epath, epath, vname),
                         'g.check_true("get() as an integer is %d", crate::%s::get() as i128 == %s as %s as i128);' % (v, epath, lit, base)]
            body.append("g.expect_no_call();")
            self.group(mod_of(epath), "C15", "enum-singleton %s::get reads the value at %#x" % (epath, a), body)
        # C15: extern values are references to their address
        for xpath in sorted(exp["externs"]):
            x = exp["externs"][xpath]
            mod = mod_of(xpath)
            self.group(mod, "C15", "extern %s::get_%s is a reference to %#x" % ("::".join(mod), xpath.split("::")[-1], x["addr"]),
                       ['g.check("get_%s()", crate::%s::get_%s() as *mut _ as usize as u64, %#x);' % (
                           xpath.split("::")[-1], "::".join(mod), xpath.split("::")[-1], x["addr"]),
                        "g.expect_no_call();"])
        return self

    # -- Rust text -----------------------------------------------------------------------------------
    def mod_extra(self):
        return {mod: "\n#[allow(warnings)]\npub unsafe fn __exec_groups() {\n    use crate::__exec as x;\n%s}\n" % "".join(groups)
                for mod, groups in self.code.items()}

    def crate_extra(self):
        n = len(self.recorder_names)
        support = SUPPORT_RS
        for key, val in (("POOL_BASE", "%#x" % POOL_BASE), ("POOL_STRIDE", "%#x" % POOL_STRIDE), ("POOL_COUNT", "%d" % POOL_COUNT),
                         ("N", "%d" % n), ("SLOT0", "%d" % self.slot0), ("NSLOTS", "%d" % self.nslots),
                         ("RECORDERS", ", ".join("rec::<%d>" % k for k in range(n))),
                         ("RECORDER_NAMES", ", ".join(rust_str(s) for s in self.recorder_names))):
            support = support.replace("@@%s@@" % key, val)
        main = ["fn main() {", "    unsafe {",
                "        crate::__exec::set_first(::std::env::args().nth(1).and_then(|a| a.parse().ok()).unwrap_or(0));",
                "        if !crate::__exec::pool_init() {",
                '            println!("UNUSABLE the address pool cannot be mapped");',
                "            ::std::process::exit(3);",
                "        }"]
        main += ["        crate::__exec::plant(%#x, %d);" % p for p in self.plants]
        main += ["        crate::__exec::selftest();"]
        main += ["        crate::%s::__exec_groups();" % "::".join(mod) for mod in sorted(self.code)]
        main += ['        println!("DONE");', "    }", "}"]
        return support + "\n".join(main) + "\n"


def mod_of(path):
    return tuple(path.split("::")[:-1])


def rust_str(s):
    return '"%s"' % s.replace("\\", "\\\\").replace('"', '\\"')


# ================================================================================================
# 4. Compile and run one case
# ================================================================================================
LINE_RE = re.compile(r"^(RUN|OK|FAIL) (\d+) (\w+) (.*)$")


def apply_mutation(outdir, hres, exp, mutate):
    """post-process the EMITTED text of the assembled crate (what pyxis wrote, calling conventions already
    normalised) with mutate(relative path, text, exp) -> text; what assemble appended stays as it is"""
    for rel, text in rustc_oracle.texts_of(hres).items():
        emitted = rustc_oracle.ABI_RE.sub('extern "C"', text)
        path = os.path.join(outdir, rel)
        whole = open(path).read()
        assert whole.startswith(emitted), "assemble no longer writes the emitted text first"
        with open(path, "w") as f:
            f.write(mutate(rel, emitted, exp) + whole[len(emitted):])


def exec_case(hres, exp, workdir, name, mutate=None):
    """compile the emitted crate of an accepted case with its driver and run it.
    Returns dict(status, codes, stderr, groups, skipped) with status "ran" | "unusable" and
    groups = [(idx, prop, label, "OK" | "FAIL" | "CRASH" | "NOTRUN", detail)]"""
    d = os.path.join(workdir, "exec_" + name)
    drv = Driver(exp).build()
    res = dict(status="unusable", codes=[], stderr="", groups=[], skipped=dict(drv.skipped), dir=d)
    lib = rustc_oracle.assemble(hres, d, extra=drv.crate_extra(), mod_extra=drv.mod_extra())
    if mutate:
        apply_mutation(d, hres, exp, mutate)
    exe = os.path.join(d, "driver")
    try:
        p = subprocess.run(["rustc", "--edition", "2021", "--crate-type", "bin", "--crate-name", "driver", "-C", "opt-level=0",
                            "-C", "debuginfo=0", "-o", exe, lib],
                           stdout=subprocess.PIPE, stderr=subprocess.PIPE, text=True, timeout=COMPILE_TIMEOUT, cwd=d)
    except subprocess.TimeoutExpired:
        res["codes"] = ["compile-timeout"]
        return res
    if p.returncode != 0:
        res["codes"] = sorted(set(re.findall(r"error\[(E\d+)\]", p.stderr))) or ["rustc-error"]
        res["stderr"] = p.stderr[-20000:]
        return res
    state = {}           # idx -> (verdict, detail)
    first, restarts = 0, 0
    while True:
        try:
            q = subprocess.run([exe, str(first)], stdout=subprocess.PIPE, stderr=subprocess.PIPE, timeout=RUN_TIMEOUT, cwd=d)
            out, err, how = q.stdout.decode("utf-8", "replace"), q.stderr.decode("utf-8", "replace"), "exit code %d" % q.returncode
            if q.returncode < 0:
                how = "signal %d" % -q.returncode
        except subprocess.TimeoutExpired as e:
            out, err, how = (e.stdout or b"").decode("utf-8", "replace"), (e.stderr or b"").decode("utf-8", "replace"), "no answer within %d s" % RUN_TIMEOUT
        running = None
        for ln in out.split("\n"):
            if ln.startswith("UNUSABLE"):
                res["codes"] = ["pool-not-mappable"]
                return res
            m = LINE_RE.match(ln)
            if not m:
                continue
            idx = int(m.group(2))
            if m.group(1) == "RUN":
                running = idx
            else:
                detail = m.group(4).split(": ", 1)[1] if m.group(1) == "FAIL" and ": " in m.group(4) else ""
                state[idx] = (m.group(1), detail)
                running = None
        if out.rstrip().endswith("DONE") and running is None:
            break
        if running is None or restarts >= MAX_RESTARTS:
            res["codes"] = ["driver-broken"]
            res["stderr"] = "driver stopped outside a group (%s): %s" % (how, err[-2000:])
            return res
        state[running] = ("CRASH", "the process died inside this group (%s) %s" % (how, " ".join(err.split())[-300:]))
        first, restarts = running + 1, restarts + 1
    if any(state.get(i, ("NOTRUN",))[0] != "OK" for i in range(FIRST_GROUP)):
        res["codes"] = ["selftest"]
        res["stderr"] = str([state.get(i) for i in range(FIRST_GROUP)])
        return res
    res["status"] = "ran"
    res["groups"] = [(idx, prop, label) + state.get(idx, ("NOTRUN", "")) for idx, prop, label in drv.groups]
    return res


# ================================================================================================
# 5. The stage
# ================================================================================================
def exec_cases(pid, lo, hi, seed):
    """candidates lo..hi-1 of the deterministic input stream of (pid, seed)"""
    import gen
    prof = exec_profile(pid)
    cases = []
    for i in range(lo, hi):
        gseed = seed * 15485863 + 13 * i + 11
        files, exp = gen.generate(gseed, 8, prof)
        cases.append(dict(id="exec-%s-%d" % (pid, i), ptr=8, schedule=[], files=files, exp=exp, text=True, gseed=gseed))
    return cases


def exec_stage(pid, tier, seed, scratch, mutate=None, verbose=False):
    """the execution oracle for property pid (C04, C05, C06, C07, C15): (failures, counts).
    quick: 24 inputs accepted by pyxis, thorough: 400.  A failure is a group tagged pid that did not end with OK;
    counts say how many cases were usable and how many groups of which kind held (exec:assertions...).
    mutate(relative path, emitted text, exp) -> text, when given, rewrites the emitted files before compiling
    (used to show that the oracle notices wrong output: tools/exec_validate.py)."""
    import engine
    import props
    import pyxlib as P
    from concurrent.futures import ThreadPoolExecutor
    assert pid in PROPS_SERVED
    n = 24 if tier == "quick" else 400
    failures, counts = [], collections.Counter()
    shown = 0
    accepted = nxt = 0
    while accepted < n and nxt < 3 * n:
        batch = exec_cases(pid, nxt, nxt + min(200, n - accepted), seed)
        nxt += len(batch)
        results = engine.run(batch, scratch, want_model=False)
        counts["exec:input_rejected_by_pyxis"] += sum(1 for r in results if r.hv[0] != "ok")
        results = [r for r in results if r.hv[0] == "ok"]
        accepted += len(results)

        def job(r):
            try:
                return exec_case(r.h, r.case["exp"], scratch, re.sub(r"\W", "_", r.case["id"]), mutate)
            except Exception as e:  # noqa
                return dict(status="unusable", codes=["oracle-error"], stderr=repr(e), groups=[], skipped={})
        with ThreadPoolExecutor(P.JOBS) as ex:
            verdicts = list(ex.map(job, results))
        for r, v in zip(results, verdicts):
            if v["status"] != "ran":
                counts["exec:unusable:%s" % ",".join(v["codes"])] += 1
                if verbose and shown < 4:
                    shown += 1
                    print("---- unusable %s (gseed %s) %s\n%s" % (r.case["id"], r.case["gseed"], v["codes"], v["stderr"][:1500]))
                continue
            for k, c in v["skipped"].items():
                counts["exec:skipped:%s" % k] += c
            bad = [g for g in v["groups"] if g[3] != "OK"]
            mine = [g for g in bad if g[1] == pid]
            for g in v["groups"]:
                kind = "%s:%s" % (g[1], g[2].split(" ")[0])
                if g[3] == "OK":
                    counts["exec:assertions"] += 1
                    counts["exec:assertions:%s" % (kind if g[1] == pid else g[1])] += 1
                else:
                    counts["exec:failed_groups:%s" % kind] += 1
            if mine:
                counts["exec:FAIL"] += 1
                failures.append(dict(clause="%s.exec" % pid,
                                     detail="the compiled output does not behave as described: " + " || ".join(
                                         "%s %s: %s" % (g[3], g[2], g[4]) for g in mine[:6]),
                                     case=props.summarise_case(r.case)))
            elif bad:
                counts["exec:fail_for_another_property"] += 1
            else:
                counts["exec:all_ok"] += 1
    return failures, dict(counts)


if __name__ == "__main__":
    import sys
    sys.path.insert(0, os.path.dirname(os.path.abspath(__file__)))
    import props  # noqa: F401  (before the other runners: import order)
    import pyxlib as P
    if len(sys.argv) > 3 and sys.argv[1] == "show":
        # python3 exec_oracle.py show <pid> <gseed>: one input of the stream, its emitted files' groups line by line
        import engine
        import gen
        files, exp = gen.generate(int(sys.argv[3]), 8, exec_profile(sys.argv[2]))
        for k, v in files.items():
            print("=== %s\n%s" % (k, v))
        with P.Scratch() as scratch:
            r = engine.run([dict(id="show", ptr=8, schedule=[], files=files, exp=exp, text=True)], scratch, want_model=False)[0]
            print("pyxis:", r.hv)
            if r.hv[0] == "ok":
                v = exec_case(r.h, exp, scratch, "show")
                print("status %s %s\n%s" % (v["status"], v["codes"], v["stderr"]))
                for g in v["groups"]:
                    print("%-6s %s %s %s" % (g[3], g[1], g[2], g[4]))
        sys.exit(0)
    pid = sys.argv[1] if len(sys.argv) > 1 else "C05"
    tier = sys.argv[2] if len(sys.argv) > 2 else "quick"
    seed = int(sys.argv[3]) if len(sys.argv) > 3 else 0
    with P.Scratch() as scratch:
        fails, counts = exec_stage(pid, tier, seed, scratch, verbose=True)
    for k in sorted(counts):
        print("%6d  %s" % (counts[k], k))
    for f in fails[:10]:
        print("FAILURE", f["clause"], f["case"]["id"], f["detail"][:1500])
