"""C12 runner: robustness inputs through the real pyxis in bounded processes."""
import collections
import json
import os
import random
import re

import sx
import gen
import engine
import props
import pyxlib as P

TOKENS = ["type", "enum", "impl", "extern", "use", "pub", "fn", "vftable", "backend", "prologue", "epilogue", "unknown",
          "const", "mut", "self", "super", "{", "}", "(", ")", "[", "]", "<", ">", ";", ":", "::", ",", "#", "!", "=", "->", "*", "&",
          "_", "T", "U", "u8", "u32", "void", "a", "b", "0", "1", "4", "-1", "0x10", "18446744073709551615",
          "9223372036854775807", "9223372036854775808", "-9223372036854775808", "99999999999999999999999999",
          '"str"', '"thiscall"', "///doc\n", "//!mdoc\n", "address", "size", "align", "index", "base", "packed", "singleton",
          "copyable", "defaultable", "default", "calling_convention", "r#type", "r#fn", "'a", "1.5", "é", "\\", "@", "$", "`", "/*", "*/"]
BOUNDARY = ["0", "1", "-1", "2147483648", "4294967295", "4294967296", "9223372036854775807", "9223372036854775808",
            "-9223372036854775808", "-9223372036854775809", "18446744073709551615", "18446744073709551616",
            "340282366920938463463374607431768211456", "0x7fffffffffffffff", "0xffffffffffffffff", "1usize", "5u8", "1_0"]


def token_soup(rng):
    n = rng.randint(1, 120)
    return " ".join(rng.choice(TOKENS) for _ in range(n))


def mutate(rng, text):
    toks = re.findall(r"\s+|[A-Za-z_][A-Za-z_0-9]*|0x[0-9a-fA-F_]+|\d[\d_]*|\"[^\"]*\"|.", text, re.S)
    if not toks:
        return text
    for _ in range(rng.randint(1, 4)):
        k = rng.random()
        i = rng.randrange(len(toks))
        if k < 0.25:
            del toks[i]
        elif k < 0.45:
            toks.insert(i, toks[rng.randrange(len(toks))])
        elif k < 0.6 and len(toks) > 1:
            j = rng.randrange(len(toks))
            toks[i], toks[j] = toks[j], toks[i]
        elif k < 0.8:
            toks[i] = rng.choice(TOKENS)
        else:
            toks.insert(i, rng.choice(TOKENS))
        if not toks:
            return ""
    return "".join(toks)


def boundary_ints(rng, text):
    # a vftable index or size asks for a table of that many slots: time and memory proportional to
    # it is what the property allows, so those positions are left alone
    nums = [m for m in re.finditer(r"(?<![A-Za-z_0-9])(0x[0-9a-fA-F_]+|0b[01_]+|0o[0-7_]+|\d[\d_]*)", text)
            if not text[:m.start()].endswith("index(") and not re.match(r"\)\]\s*(?:///[^\n]*\s*)*vftable", text[m.end():])]
    if not nums:
        return text
    out = text
    for m in sorted(rng.sample(nums, min(len(nums), rng.randint(1, 3))), key=lambda m: -m.start()):
        out = out[:m.start()] + rng.choice(BOUNDARY) + out[m.end():]
    return out


def deep(rng):
    k = rng.random()
    d = rng.choice([5, 50, 64, 65, 200, 500, 800])
    if k < 0.3:
        return "type T { a: %su8 }" % ("*const " * d)
    if k < 0.6:
        return "type T { a: %su8%s }" % ("[" * d, "; 1]" * d)
    if k < 0.8:
        return "type T { a: %su8%s }" % ("[" * d, "; 0]" * d)
    return "type T { " + ", ".join("f%d: u8" % i for i in range(d * 3)) + " }"


def cyclic(rng):
    n = rng.randint(1, 6)
    names = ["C%d" % i for i in range(n)]
    k = rng.random()
    items = []
    for i, nm in enumerate(names):
        nxt = names[(i + 1) % n]
        if k < 0.4:
            items.append("type %s { a: %s }" % (nm, nxt))
        elif k < 0.6:
            items.append("type %s { a: [%s; 2] }" % (nm, nxt))
        elif k < 0.8:
            items.append("type %s { #[base] b: %s }" % (nm, nxt))
        else:
            items.append("type %s { a: *mut %s, vftable { fn f(&self, x: %s) -> %s; } }" % (nm, nxt, nxt, nm)
                         if rng.random() < 0.5 else "type %s { vftable { fn f(&self, x: *const %s); }, a: *mut %s }" % (nm, nxt, nxt))
    rng.shuffle(items)
    return "\n".join(items)


def absurd(rng):
    return rng.choice([
        "type T { a: [[u64;4294967296];4294967296] }",
        "type T { a: [u8; 18446744073709551615], b: u8 }",
        "type T { a: [u8; 9223372036854775808], b: [u8; 9223372036854775808] }",
        "#[size(18446744073709551615)] type T { a: u8 }",
        "#[size(-1)] type T;", "#[align(-8)] type T;", "#[align(0)] type T { a: u8 }", "#[singleton(-1)] type T;",
        "type T { vftable { #[index(-1)] fn f(&self); } }", "type T { #[size(-1)] vftable { fn f(&self); } }",
        "type T { #[address(-4)] a: u32 }", "#[address(-1)] extern x: u32;", "#[size(-1), align(4)] extern type X;",
        "#[size(4), align(0)] extern type X; type T { a: X, b: X }",
        "enum E: i64 { A = 9223372036854775807, B }", "enum E: u8 { A = -9223372036854775808 }",
        "#[singleton(-5)] enum E: u8 { A }", "type B { a: u32 } type T { #[base] _: B }",
        "type T { #[base] a: *const T }", "type T { #[base] a: u32 }", "enum E: u8 { A } type T { #[base] e: E }",
        "type T { vftable { fn f(&self); }, vftable { fn g(&self); } }", "type T { a: u8, vftable { fn f(&self); } }",
        "impl T { fn f(&self); }", "type T; impl T { #[index(1), address(1)] fn f(&self); }",
        "type T { vftable { #[address(1)] fn f(&self); } }", "#[doc = 5] type T;", "#![doc = 5]\ntype T;",
        "type T { #[doc = x] a: u8 }", "type T { a: unknown<18446744073709551615> , b: u8}",
        "type T { #[address(18446744073709551615)] a: u8 }",
        "type Loooooooooooooooooooooooooooooooooooooooooooooooooooooooooooooooooooooooooooooooooooooooooooooooooong { a: u8 }",
    ])


def error_paths(rng):
    """small erroneous (and sometimes valid) descriptions that walk the error paths of the layout code with
    every kind of predecessor: named fields, `_` fields, unknown<N> gaps, padding from explicit addresses,
    bases, own vftable pointer -- overlapping / misaligned addresses, sizes and alignments that do not fit"""
    prims = [("u8", 1), ("u16", 2), ("u32", 4), ("u64", 8), ("*const u8", 4), ("[u16; 3]", 6), ("[u64; 0]", 0)]
    body = []
    cur = 0
    if rng.random() < 0.3:
        body.append("    vftable { fn f(&self); }")
        cur = 4
    pre = ""
    if rng.random() < 0.25:
        pre = "type B0 { pub x: u32 }\n"
        body.append("    #[base] %s: B0" % rng.choice(["b", "_", "base"]))
        cur += 4
    for i in range(rng.randint(1, 4)):
        t, sz = rng.choice(prims)
        k = rng.random()
        name = "_" if k < 0.4 else "f%d" % i
        if k < 0.15:
            body.append("    _: unknown<%d>" % rng.choice([0, 1, 3, 8]))
            continue
        attr = ""
        if rng.random() < 0.6:
            addr = max(0, cur + rng.choice([-9, -4, -1, 0, 0, 1, 2, 4, 8]))
            attr = "#[address(%s)] " % rng.choice([str(addr), hex(addr)])
            cur = addr
        body.append("    %s%s%s: %s" % (attr, "pub " if rng.random() < 0.5 else "", name, t))
        cur += sz
    attrs = []
    if rng.random() < 0.4:
        attrs.append("size(%d)" % max(0, cur + rng.choice([-8, -1, 0, 0, 1, 4])))
    if rng.random() < 0.3:
        attrs.append("align(%d)" % rng.choice([0, 1, 2, 3, 4, 8, 16, 24]))
    if rng.random() < 0.2:
        attrs.append("packed")
    return pre + ("#[%s]\n" % ", ".join(attrs) if attrs else "") + "type T {\n" + ",\n".join(body) + "\n}\n"


def located_damage(rng, files):
    """a valid input with one token that no production accepts (`?`) put on a line of its own INSIDE the braces of a
    type or enum definition.  Returns (files, (file, damage line, damage column, line of the item's closing brace))
    or None.  The parse error must be reported in that file, not before the damaged token and not beyond the item
    it is in (lines and columns 1-based, as in the message)."""
    names = sorted(files)
    rng.shuffle(names)
    for name in names:
        lines = files[name].split("\n")
        spans = []
        i = 0
        while i < len(lines):
            if re.match(r"^(pub )?(type|enum) \w+.*\{\s*$", lines[i]):
                j = i + 1
                while j < len(lines) and lines[j] != "}" and lines[j] != "},":
                    j += 1
                if j < len(lines) and j > i + 1:
                    spans.append((i, j))
                i = j
            i += 1
        if not spans:
            continue
        a, b = rng.choice(spans)
        k = rng.randint(a + 1, b)                  # the new line goes in front of line k (a < k <= b)
        # never between the lines of a doc comment / attribute and the thing they belong to being irrelevant: any
        # position between two lines of the body is a token boundary
        new = lines[:k] + ["    ?"] + lines[k:]
        out = dict(files)
        out[name] = "\n".join(new)
        return out, (name, k + 1, 5, b + 2)
    return None


def raw_idents(rng):
    """raw identifiers (`r#type`) wherever pyxis turns a name into an identifier with format_ident!: fields, enum
    variants, functions, parameters (a raw TYPE name is the listed finding F6f and is not generated here)"""
    kws = ["type", "struct", "match", "in", "fn", "loop", "move", "ref", "use", "mod", "impl", "enum"]
    k = lambda: "r#" + rng.choice(kws)
    names = []
    while len(names) < 6:
        n_ = k()
        if n_ not in names:
            names.append(n_)
    f1, f2, v1, v2, m1, a1 = names
    text = "pub type Holder {\n    pub %s: u32,\n    %s: *const u8,\n}\n" % (f1, f2)
    text += "pub enum Kind: u8 {\n    %s = 1,\n    %s,\n}\n" % (v1, v2)
    if rng.random() < 0.7:
        text += "impl Holder {\n    #[address(0x%x)]\n    pub fn %s(&self, %s: u32) -> u32;\n}\n" % (rng.randint(16, 2**20), m1, a1)
    if rng.random() < 0.5:
        text += "pub type WithTable {\n    vftable {\n        pub fn %s(&self, %s: *const Holder);\n    },\n}\n" % (m1, a1)
    return text


def clash_inputs(rng):
    """inherited functions whose clash-renamed name <field>_<name> is taken as well (finding F24 emits two functions of one
    name): whatever pyxis does with them, it has to terminate"""
    f = rng.choice(["update", "reset", "f"])
    b = rng.choice(["listener", "b", "base2"])
    text = "pub type A { pub x: u32 }\nimpl A { #[address(0x10)] pub fn %s(&self); }\n" % f
    text += "pub type B { pub y: u32 }\nimpl B { #[address(0x20)] pub fn %s(&self);%s }\n" % (
        f, " #[address(0x30)] pub fn %s_%s(&self);" % (b, f) if rng.random() < 0.5 else "")
    text += "pub type Mid { #[base] pub a: A, #[base] pub %s: B }\n" % b
    text += "pub type D { #[base] pub x: Mid, #[base] pub %s: B }\n" % b
    if rng.random() < 0.5:
        text += "pub type E { #[base] pub d: D, #[base] pub %s: B }\n" % b
    return text


def api_cases(rng, n):
    """module sets given as ASTs with unusual pointer sizes / repeated modules / odd identifiers"""
    out = []
    base = '(module (attrs) (uses) (extern_types) (extern_values) (defs (def pub "T" (type (attrs) (field (attrs) pub "a" (cptr (tid "u8"))) (field (attrs) pub "b" (tid "u32"))))) (impls) (backends))'
    odd = '(module (attrs) (uses) (extern_types) (extern_values) (defs (def pub "%s" (type (attrs) (field (attrs) pub "%s" (tid "u32"))))) (impls) (backends))'
    for i in range(n):
        k = rng.random()
        if k < 0.3:
            out.append(dict(id="api-%d" % i, ptr=rng.choice([0, 1, 2, 3, 5, 16, 2**31]), schedule=[], modules=[('(path "m")', base)]))
        elif k < 0.5:
            out.append(dict(id="api-%d" % i, ptr=4, schedule=[], modules=[('(path "m")', base), ('(path "m")', base)]))
        elif k < 0.7:
            out.append(dict(id="api-%d" % i, ptr=4, schedule=[], modules=[('(path)', base)]))
        else:
            nm = rng.choice(["", "1x", "a b", "a-b", "type", "self", "Self", "crate", "r#type", "x<y>", "caf\\xc3\\xa9"])
            fn = rng.choice(["", "2", "fn", "a.b", "_", "vftable"])
            out.append(dict(id="api-%d" % i, ptr=4, schedule=[], modules=[('(path "m")', odd % (nm, fn))]))
    return out


def runner(pid, prop, tier, seed, scratch, replay=None):
    rng = random.Random(seed)
    n = 1500 if tier == "quick" else 40000
    cases = []
    if replay:
        doc = json.load(open(os.path.join(P.VERIF, replay) if not os.path.isabs(replay) else replay))
        c = doc.get("case") or {}
        cases = [dict(id=c.get("id", "replay"), ptr=c.get("ptr", 4), schedule=[], files=c.get("files", {}), kind="replay")]
        if c.get("modules"):
            cases[0]["modules"] = [tuple(x) for x in c["modules"]]
            cases[0].pop("files")
    else:
        valid = [gen.generate(seed * 7919 + i, 4 if i % 2 else 8, dict(miss=0.0))[0] for i in range(40)]
        for i in range(n):
            k = i % 10
            ptr = rng.choice([4, 8])
            if i % 40 == 13:
                files, kind = {"a.pyxis": raw_idents(rng)}, "raw_identifiers"
            elif i % 40 == 33:
                files, kind = {"a.pyxis": clash_inputs(rng)}, "rename_clashes"
            elif i % 20 == 19 or i % 40 == 3:
                ld = located_damage(rng, rng.choice(valid))
                if ld is None:
                    files, kind = {"a.pyxis": error_paths(rng)}, "error_paths"
                else:
                    files, kind = ld[0], "located_damage"
                    cases.append(dict(id="c12-%d" % i, ptr=ptr, schedule=[], files=files, kind=kind, damage=ld[1]))
                    continue
            elif k < 2:
                files, kind = {"a.pyxis": token_soup(rng)}, "token_soup"
            elif k == 4:
                files, kind = {"a.pyxis": error_paths(rng)}, "error_paths"
            elif k < 5:
                src = rng.choice(valid)
                name = rng.choice(sorted(src))
                files = dict(src)
                files[name] = mutate(rng, src[name])
                kind = "mutated_valid"
            elif k < 7:
                src = rng.choice(valid)
                name = rng.choice(sorted(src))
                files = dict(src)
                files[name] = boundary_ints(rng, src[name])
                kind = "boundary_ints"
            elif k == 7:
                files, kind = {"a.pyxis": deep(rng)}, "deep_or_long"
            elif k == 8:
                files, kind = {"a.pyxis": cyclic(rng), "b/c.pyxis": "use a;\ntype X { p: *const C0 }\n"}, "cyclic"
            elif i % 20 == 9:
                files, kind = {"a.pyxis": absurd(rng)}, "absurd_numbers"
            else:
                files, kind = {"a.pyxis": error_paths(rng)}, "error_paths"
            cases.append(dict(id="c12-%d" % i, ptr=ptr, schedule=[], files=files, kind=kind))
        cases += [dict(c, kind="api") for c in api_cases(rng, 60 if tier == "quick" else 600)]
    results = engine.run(cases, scratch)
    out = dict(evaluations=len(results), failures=[], breaks=[], samples=[], notes=[])
    dist = collections.Counter()
    kinds = collections.Counter()
    seen = set()
    nontrivial = 0
    for r in results:
        kind = r.case.get("kind")
        dist["%s:%s" % (kind, r.hv[0])] += 1
        key = json.dumps(r.case.get("files") or r.case.get("modules"), sort_keys=True) + str(r.case["ptr"])
        if key not in seen:
            seen.add(key)
            nontrivial += 1
        summary = dict(id=r.case["id"], ptr=r.case["ptr"], files=r.case.get("files"), modules=r.case.get("modules"))
        if r.hv[0] in ("panic", "hang", "crash", "missing"):
            f = dict(clause="C12.%s" % r.hv[0], detail="%s input: %s" % (kind, str(r.hv[1])[:300]), case=summary)
            text = " ".join((r.case.get("files") or {}).values()) + " ".join(m for _, m in (r.case.get("modules") or []))
            if "r#" in text and "not a valid Ident" in str(r.hv[1]):
                f["kf"] = "KF_raw_ident"
            elif kind == "api" and re.search(r"not a valid Ident|Ident is not allowed to be empty|Ident cannot be a number", str(r.hv[1])):
                f["kf"] = "KF_api_invalid_ident"
            out["failures"].append(f)
        # the two entry points agree
        av = P.verdict_class((sx.field(r.h, "api_verdict") or ["missing"])[0])
        backend_refusal = r.hv[0] == "err" and av[0] == "ok" and "Could not parse generated Rust code" in str(r.hv[1])
        if r.case.get("files") is not None and av[0] != r.hv[0] and r.hv[0] not in ("hang", "crash") and not backend_refusal:
            out["failures"].append(dict(clause="C12.entry_points_disagree", detail="build(): %s, add_file/build: %s" % (r.hv[0], av[0]), case=summary))
        # parse errors carry file:line:col inside the file
        for a in sx.field(r.h, "asts") or []:
            if a[0] == "parse_panic":
                out["failures"].append(dict(clause="C12.parse_panic", detail=sx.qtext(a[2])[:300], case=summary))
            if a[0] == "parse_error":
                rel = sx.qtext(a[1])
                line, col = int(a[3]), int(a[4])
                text = (r.case.get("files") or {}).get(rel, "")
                lines = text.split("\n")
                if not (1 <= line <= max(1, len(lines)) + 1):
                    out["failures"].append(dict(clause="C12.parse_position", detail="%s: line %d outside the file (%d lines)" % (rel, line, len(lines)), case=summary))
                if r.hv[0] == "err":
                    msg = str(r.hv[1])
                    if not re.search(r"failed to parse .*%s:%d:%d" % (re.escape(rel), line, col + 1), msg):
                        # another file may have failed first; only require *some* position
                        if not re.search(r"failed to parse .*:\d+:\d+", msg):
                            out["failures"].append(dict(clause="C12.parse_message", detail=msg[:300], case=summary))
        # a damage of known location: the error names that file and a position from the damaged token up to the end
        # of the definition it is in
        dmg = r.case.get("damage")
        if dmg:
            rel, dl, dc, endl = dmg
            msg = str(r.hv[1])
            m = re.search(r"failed to parse .*?%s:(\d+):(\d+)" % re.escape(rel), msg) if r.hv[0] == "err" else None
            if m is None:
                out["failures"].append(dict(clause="C12.parse_position", detail="one `?` inside a definition of %s (line %d): %s %s"
                                            % (rel, dl, r.hv[0], msg[:200]), case=summary))
            else:
                line, col = int(m.group(1)), int(m.group(2))
                dist["located_damage:%s" % ("exact" if (line, col) == (dl, dc) else "later_in_item")] += 1
                if (line, col) < (dl, dc) or line > endl:
                    out["failures"].append(dict(clause="C12.parse_position", detail="a `?` at %s:%d:%d inside a definition ending on line %d is reported at %d:%d: %s"
                                                % (rel, dl, dc, endl, line, col, msg[:200]), case=summary))
        # model and implementation agree on the verdict class for inputs that parse
        if r.m is not None and r.mv is not None and r.hv[0] in ("ok", "err", "noprogress", "panic"):
            if r.hv[0] != r.mv[0] and not (backend_refusal and r.mv[0] == "ok"):
                out["breaks"].append(dict(aspect="verdict", detail="%s input: impl %s (%s) vs model %s (%s)" % (
                    kind, r.hv[0], str(r.hv[1])[:200], r.mv[0], str(r.mv[1])[:200]), case=summary))
        if replay:
            print("replay:", r.hv, r.mv)
    out["distinct_nontrivial"] = nontrivial
    out["distribution"] = dict(dist)
    out["samples"] = [dict(kind=c["kind"], ptr=c["ptr"], files=c.get("files"), modules=c.get("modules")) for c in cases[:20:7]]
    return out
