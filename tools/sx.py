"""S-expressions shared with the harness (Rust) and the model (Coq/OCaml).

Parsed form: atoms are `str`, quoted strings are `Q` (a str subclass holding the decoded bytes as
latin-1 text, so every byte round-trips), lists are Python lists."""


import sys
sys.setrecursionlimit(50000)


class Q(str):
    """a quoted string (bytes decoded as latin-1)"""
    __slots__ = ()

    def __repr__(self):
        return "Q(" + str.__repr__(self) + ")"


def quote(s):
    """s: str (unicode text, encoded as UTF-8) or bytes or Q (latin-1 bytes)"""
    if isinstance(s, Q):
        data = s.encode("latin-1")
    elif isinstance(s, bytes):
        data = s
    else:
        data = s.encode("utf-8")
    out = ['"']
    for b in data:
        if b == 0x22:
            out.append('\\"')
        elif b == 0x5C:
            out.append("\\\\")
        elif b == 10:
            out.append("\\n")
        elif 0x20 <= b <= 0x7E:
            out.append(chr(b))
        else:
            out.append("\\x%02x" % b)
    out.append('"')
    return "".join(out)


def parse(text):
    """returns the list of top-level expressions"""
    stack = [[]]
    pos, n = 0, len(text)
    while pos < n:
        c = text[pos]
        if c in " \t\r\n":
            pos += 1
        elif c == "(":
            stack.append([])
            pos += 1
        elif c == ")":
            l = stack.pop()
            stack[-1].append(l)
            pos += 1
        elif c == '"':
            pos += 1
            out = []
            while True:
                c = text[pos]
                if c == '"':
                    pos += 1
                    break
                if c == "\\":
                    d = text[pos + 1]
                    if d == "n":
                        out.append("\n")
                        pos += 2
                    elif d == "x":
                        out.append(chr(int(text[pos + 2:pos + 4], 16)))
                        pos += 4
                    else:
                        out.append(d)
                        pos += 2
                else:
                    out.append(c)
                    pos += 1
            stack[-1].append(Q("".join(out)))
        else:
            j = pos
            while j < n and text[j] not in ' \t\r\n()"':
                j += 1
            stack[-1].append(text[pos:j])
            pos = j
    if len(stack) != 1:
        raise ValueError("unbalanced parentheses")
    return stack[0]


def show(e):
    if isinstance(e, list):
        return "(" + " ".join(show(x) for x in e) + ")"
    if isinstance(e, Q):
        return quote(e)
    return str(e)


def tagged(e, tag):
    if isinstance(e, list) and e and e[0] == tag and not isinstance(e[0], Q):
        return e[1:]
    return None


def field(l, tag):
    for e in l:
        t = tagged(e, tag)
        if t is not None:
            return t
    return None


def qtext(q):
    """a Q as unicode text (bytes were UTF-8)"""
    return q.encode("latin-1").decode("utf-8", errors="replace")
