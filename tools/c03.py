"""C03: acceptance <-> realisability.  Enumerates single-type descriptions over built-in field
types, asks the real pyxis for its verdict (harness `verdicts`), evaluates the Coq spec
`realisableb` and the arithmetic core `acceptb` (extracted), and runs a sample through the full model."""
import itertools
import os
import random
import subprocess
from concurrent.futures import ThreadPoolExecutor

import sx
import pyxlib as P

FIELD_TYPES = ["u8", "u16", "u32", "u64", "*const u8", "[u16; 2]", "unknown<1>", "unknown<2>", "unknown<3>",
               "[u32; 0]", "unknown<0>", "bool", "[u8; 3]", "Z4"]
# Z4: a zero-sized user type with alignment 4 (`#[align(4)] type Z4;`) -- a member without bytes that still has an alignment


def type_info(t, ptr):
    """(size, align, is_array)"""
    if t == "Z4":
        return (0, 4, 0)
    if t.startswith("*"):
        return (ptr, ptr, 0)
    if t.startswith("unknown<"):
        return (int(t[8:-1]), 1, 1)
    if t.startswith("["):
        inner, n = t[1:-1].split(";")
        s, a, _ = type_info(inner.strip(), ptr)
        return (s * int(n), a, 1)
    return {"u8": (1, 1, 0), "bool": (1, 1, 0), "u16": (2, 2, 0), "u32": (4, 4, 0), "u64": (8, 8, 0),
            "u128": (16, 16, 0), "f64": (8, 8, 0)}[t]


def text_of(d):
    ptr, fields, size, align, packed = d
    attrs = []
    if size is not None:
        attrs.append("size(%d)" % size)
    if align is not None:
        attrs.append("align(%d)" % align)
    if packed:
        attrs.append("packed")
    # the order of the attributes carries no meaning: it is varied deterministically over the grid
    if len(attrs) > 1:
        k = (len(fields) + (size or 0) + (align or 0) + ptr // 4 + sum((a or 0) for _, a in fields)) % 6
        attrs = list(itertools.permutations(attrs))[k % (2 if len(attrs) == 2 else 6)]
    out = ("#[%s]\n" % ", ".join(attrs)) if attrs else ""
    body = []
    for i, (t, addr) in enumerate(fields):
        name = "_" if t.startswith("unknown") and i % 2 == 0 else "f%d" % i
        body.append(("#[address(%d)] " % addr if addr is not None else "") + "%s: %s" % (name, t))
    pre = "#[align(4)] type Z4;\n" if any(t == "Z4" for t, _ in fields) else ""
    return pre + out + "type T { %s }" % ", ".join(body)


def spec_case(d):
    ptr, fields, size, align, packed = d
    fs = []
    for t, addr in fields:
        s, a, z = type_info(t, ptr)
        fs.append("(%s %d %d %d)" % ("none" if addr is None else addr, s, a, z))
    return "(c03 (ptr %d) (size %s) (align %s) (packed %d) (fields %s))" % (
        ptr, "none" if size is None else size, "none" if align is None else align, 1 if packed else 0, " ".join(fs))


ADDRS = [None] + list(range(0, 10))
SIZES = [None] + list(range(0, 17))
ALIGNS = [None, 1, 2, 3, 4, 8, 16]


def enumerate_scope(max_fields, types, addrs=ADDRS, sizes=SIZES, aligns=ALIGNS):
    for ptr in (4, 8):
        for n in range(0, max_fields + 1):
            for fs in itertools.product(itertools.product(types, addrs), repeat=n):
                for size in sizes:
                    for align in aligns:
                        for packed in (False, True):
                            yield (ptr, tuple(fs), size, align, packed)


def random_desc(rng):
    ptr = rng.choice((4, 8))
    n = rng.randint(2, 6)
    fields = []
    cur = 0
    for _ in range(n):
        t = rng.choice(FIELD_TYPES + ["u128", "f64", "[u64; 2]"])
        s, a, _ = type_info(t, ptr)
        k = rng.random()
        if k < 0.45:
            addr = None
            off = cur
        elif k < 0.85:
            off = (cur + a - 1) // a * a + a * rng.choice([0, 0, 1, 2])
            addr = off
        else:
            off = max(0, cur + rng.randint(-3, 5))
            addr = off
        fields.append((t, addr))
        cur = off + s
    k = rng.random()
    size = None if k < 0.4 else (cur + rng.choice([0, 0, 0, 1, 2, 3, 4, 8, -1]) if k < 0.9 else rng.randint(0, 64))
    if size is not None and size < 0:
        size = 0
    align = rng.choice([None, None, None, 1, 2, 4, 8, 16, 3, 6, 32])
    packed = rng.random() < 0.15
    return (ptr, tuple(fields), size, align, packed)


def _verdict_shard(args):
    i, descs, workdir = args
    inp = os.path.join(workdir, "v%d.in" % i)
    outp = os.path.join(workdir, "v%d.out" % i)
    with open(inp, "w") as f:
        f.write("\n".join("(%d %s)" % (d[0], sx.quote(text_of(d))) for d in descs))
    subprocess.run([P.HARNESS_BIN, "verdicts", inp, outp], check=True, timeout=1200)
    return open(outp).read().split()


def _spec_shard(args):
    i, descs, workdir = args
    inp = os.path.join(workdir, "s%d.in" % i)
    outp = os.path.join(workdir, "s%d.out" % i)
    with open(inp, "w") as f:
        f.write("\n".join(spec_case(d) for d in descs) + "\n")
    subprocess.run([P.MODEL_BIN, inp, outp], check=True, timeout=1200, preexec_fn=P._big_stack)
    return [l.split()[1:3] for l in open(outp).read().replace(")", "").splitlines() if l.strip()]


def shard(l, n):
    b = [(len(l) * i) // n for i in range(n + 1)]
    return [l[b[i]:b[i + 1]] for i in range(n) if b[i] < b[i + 1]]


def runner(pid, prop, tier, seed, scratch, replay=None):
    import json
    rng = random.Random(seed)
    if replay:
        doc = json.load(open(os.path.join(P.VERIF, replay) if not os.path.isabs(replay) else replay))
        descs = [tuple(doc["desc"][:1]) + (tuple(tuple(x) for x in doc["desc"][1]),) + tuple(doc["desc"][2:])]
        exhaustive_bound = None
    else:
        small_types = ["u8", "u16", "u32", "u64", "*const u8", "[u16; 2]", "unknown<1>", "unknown<3>", "[u32; 0]", "Z4"]
        if tier == "quick":
            descs = list(enumerate_scope(1, FIELD_TYPES))
            # two fields over a reduced but complete grid
            descs += list(enumerate_scope(2, ["u8", "u32", "u64", "*const u8", "unknown<3>", "Z4"],
                                          addrs=[None, 0, 1, 4, 8], sizes=[None, 8, 12, 16], aligns=[None, 1, 3, 4, 8]))
            exhaustive_bound = ("all descriptions with <= 1 field over %d field types, address in none|0..9, size in none|0..16, "
                                "align in none|1,2,3,4,8,16, packed, ptr 4|8; plus all 2-field descriptions over a reduced grid" % len(FIELD_TYPES))
            nrandom = 4000
        else:
            descs = list(enumerate_scope(2, small_types))
            exhaustive_bound = ("all descriptions with <= 2 fields over %d field types, address in none|0..9, size in none|0..16, "
                                "align in none|1,2,3,4,8,16, packed, ptr 4|8" % len(small_types))
            nrandom = 200000
        descs += [random_desc(rng) for _ in range(nrandom)]
    with ThreadPoolExecutor(P.JOBS) as ex:
        vs = list(ex.map(_verdict_shard, [(i, s, scratch) for i, s in enumerate(shard(descs, P.JOBS))]))
        ss = list(ex.map(_spec_shard, [(i, s, scratch) for i, s in enumerate(shard(descs, P.JOBS))]))
    verdicts = [v for part in vs for v in part]
    specs = [s for part in ss for s in part]
    out = dict(evaluations=len(descs), failures=[], breaks=[], samples=[], notes=[])
    if len(verdicts) != len(descs) or len(specs) != len(descs):
        out["breaks"].append(dict(aspect="tooling", detail="result counts differ: %d descs, %d verdicts, %d specs"
                                  % (len(descs), len(verdicts), len(specs))))
        out["distinct_nontrivial"] = 0
        return out
    import collections
    dist = collections.Counter()
    nontrivial = 0
    seen = set()
    for d, v, (acc, real) in zip(descs, verdicts, specs):
        dist["impl_%s/spec_%s" % (v, real)] += 1
        impl_ok = v == "ok"
        if v in ("panic", "parse"):
            out["failures"].append(dict(clause="C03.result", detail="implementation answered %s" % v, desc=list(d), text=text_of(d)))
            continue
        if impl_ok != (real == "1"):
            out["failures"].append(dict(
                clause="C03.iff", desc=list(d), text=text_of(d), ptr=d[0],
                detail="implementation %s the description, the spec says %s" % (
                    "accepts" if impl_ok else "rejects", "realisable" if real == "1" else "not realisable")))
        if (acc == "1") != impl_ok:
            out["breaks"].append(dict(aspect="verdict", detail="arithmetic core (acceptb) says %s, implementation %s: %s"
                                      % (acc, v, text_of(d)), desc=list(d)))
        if d not in seen:
            seen.add(d)
            if len(d[1]) >= 1 and (impl_ok or any(a is not None for _, a in d[1]) or d[2] is not None):
                nontrivial += 1
        if replay:
            print("replay: %s\n  implementation: %s   acceptb: %s   realisableb: %s" % (text_of(d), v, acc, real))
    # a sample also goes through the full model (type_build) to tie the model to the core
    sample = descs if len(descs) <= 3000 else rng.sample(descs, 3000)
    cases = [dict(id="c03-%d" % i, ptr=d[0], schedule=[], files={"m.pyxis": text_of(d) + "\n"}) for i, d in enumerate(sample)]
    import engine
    res = engine.run(cases, scratch)
    for r, d in zip(res, sample):
        if r.m is None:
            continue
        if (r.hv[0] == "ok") != (r.mv[0] == "ok"):
            out["breaks"].append(dict(aspect="verdict", detail="model %s vs implementation %s: %s" % (r.mv[0], r.hv[0], text_of(d)),
                                      case=dict(id=r.case["id"], ptr=d[0], files=r.case["files"])))
        for asp, det in r.diffs:
            if asp in ("registry", "fields", "field_types", "repr"):
                out["breaks"].append(dict(aspect=asp, detail=det, case=dict(id=r.case["id"], ptr=d[0], files=r.case["files"])))
    out["distinct_nontrivial"] = nontrivial
    out["distribution"] = dict(dist)
    out["distribution"]["full_model_sample"] = len(sample)
    out["exhaustive"] = bool(exhaustive_bound) and not replay
    out["bound"] = exhaustive_bound
    out["samples"] = [dict(text=text_of(d), ptr=d[0], impl=v, realisable=s[1]) for d, v, s in list(zip(descs, verdicts, specs))[1000:1003]] \
        or [dict(text=text_of(descs[0]), ptr=descs[0][0])]
    out["fullfile_equal"] = None
    return out
