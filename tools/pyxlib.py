"""Shared machinery of the checks: build steps, running the real pyxis (harness) and the model
(extracted OCaml), and the comparison of their results."""
import fcntl
import hashlib
import os
import shutil
import subprocess
import tempfile
import time
from concurrent.futures import ThreadPoolExecutor

import sx

VERIF = os.path.dirname(os.path.dirname(os.path.abspath(__file__)))
REPO = os.environ.get("PYXIS_REPO", "/repo")
HARNESS_DIR = os.path.join(VERIF, "harness")
HARNESS_BIN = os.path.join(HARNESS_DIR, "target", "debug", "pyxis-verif-harness")
MODEL_BIN = os.path.join(VERIF, "ocaml", "model_runner")
COQ_DIR = os.path.join(VERIF, "coq")
JOBS = int(os.environ.get("VERIF_JOBS", "16"))


class BuildError(Exception):
    pass


def _run(cmd, cwd=None, env=None, timeout=1800):
    e = dict(os.environ)
    e.update({"CARGO_NET_OFFLINE": "true"})
    if env:
        e.update(env)
    p = subprocess.run(cmd, cwd=cwd, env=e, stdout=subprocess.PIPE, stderr=subprocess.STDOUT,
                       timeout=timeout, text=True, errors="replace")
    return p.returncode, p.stdout


class Lock:
    def __init__(self, name="build"):
        self.path = os.path.join(VERIF, ".%s.lock" % name)

    def __enter__(self):
        self.f = open(self.path, "w")
        fcntl.flock(self.f, fcntl.LOCK_EX)
        return self

    def __exit__(self, *a):
        fcntl.flock(self.f, fcntl.LOCK_UN)
        self.f.close()


def build_harness():
    """rebuilds the harness (and therefore pyxis) from /repo's working tree, hooks on"""
    with Lock("cargo"):
        rc, out = _run(["cargo", "build", "--offline", "-q"], cwd=HARNESS_DIR,
                       env={"RUSTFLAGS": "--cfg pyxis_verif",
                            "CARGO_TARGET_DIR": os.path.join(HARNESS_DIR, "target")})
        if rc != 0:
            raise BuildError("harness build failed:\n" + out[-4000:])


def build_coq(targets=None):
    """full .vo build of the development (or of the given targets) under a timeout"""
    with Lock("coq"):
        if not os.path.exists(os.path.join(COQ_DIR, "Makefile")):
            rc, out = _run(["coq_makefile", "-f", "_CoqProject", "-o", "Makefile"], cwd=COQ_DIR)
            if rc != 0:
                raise BuildError("coq_makefile failed:\n" + out)
        cmd = ["make", "-j%d" % JOBS] + (targets or [])
        rc, out = _run(cmd, cwd=COQ_DIR, timeout=3000)
        return rc, out


def build_model():
    """extraction + ocamlopt of the model runner, when the extracted file is newer"""
    with Lock("ocaml"):
        src = os.path.join(COQ_DIR, "ocaml_model.ml")
        if not os.path.exists(src):
            raise BuildError("extracted model missing (coq build failed?)")
        dst_dir = os.path.join(VERIF, "ocaml")
        stamp = os.path.join(dst_dir, "ocaml_model.ml")
        need = (not os.path.exists(MODEL_BIN) or not os.path.exists(stamp)
                or open(src).read() != open(stamp).read())
        if need:
            shutil.copy(src, stamp)
            shutil.copy(src + "i", stamp + "i")
            rc, out = _run(["ocamlfind", "ocamlopt", "-O2", "-w", "-a", "ocaml_model.mli",
                            "ocaml_model.ml", "main.ml", "-o", "model_runner"], cwd=dst_dir)
            if rc != 0:
                raise BuildError("ocamlopt failed:\n" + out[-4000:])


# ------------------------------------------------------------------------------------------------
# cases


def case_sexp(c):
    """c: dict(id, ptr, schedule (list|None), files {rel: text} | modules [(path_sexp_text, module_sexp_text)], text)"""
    parts = ["(id %s)" % sx.quote(c["id"]), "(ptr %d)" % c.get("ptr", 4)]
    if c.get("schedule") is not None:
        parts.append("(schedule %s)" % " ".join(str(k) for k in c["schedule"]))
    if c.get("text"):
        parts.append("(text)")
    if c.get("parse_only"):
        parts.append("(parse_only)")
    if "modules" in c:
        parts.append("(modules %s)" % " ".join("(%s %s)" % (p, m) for p, m in c["modules"]))
    else:
        parts.append("(files %s)" % " ".join(
            "(%s %s)" % (sx.quote(rel), sx.quote(text)) for rel, text in sorted(c["files"].items())))
    return "(case %s)" % " ".join(parts)


def _harness_shard(args):
    idx, cases, workdir, timeout = args
    inp = os.path.join(workdir, "hcases_%d.sexp" % idx)
    outp = os.path.join(workdir, "hout_%d.sexp" % idx)
    with open(inp, "w") as f:
        f.write("\n".join(case_sexp(c) for c in cases))
    env = dict(os.environ)
    env["TMPDIR"] = workdir
    env.pop("RUST_BACKTRACE", None)
    env["RUST_BACKTRACE"] = "0"
    try:
        p = subprocess.run([HARNESS_BIN, "batch", inp, outp], env=env, stdout=subprocess.PIPE,
                           stderr=subprocess.PIPE, timeout=timeout)
        ok = True if p.returncode == 0 else "crash"
    except subprocess.TimeoutExpired:
        ok = "hang"
    results = {}
    if os.path.exists(outp):
        for line in open(outp, errors="replace"):
            line = line.strip()
            if not line:
                continue
            try:
                r = sx.parse(line)[0]
            except Exception:
                continue
            rid = sx.field(r[1:], "id")
            if rid:
                results[str(rid[0])] = r[1:]
    return ok, results


def run_harness(cases, workdir, per_case_timeout=10.0):
    """returns {id: result fields}; a case whose process hangs or dies gets
    [('verdict', ['hang'|'crash'])]"""
    if not cases:
        return {}
    nshards = min(JOBS, max(1, len(cases) // 4))
    shards = [cases[i::nshards] for i in range(nshards)]
    results = {}
    with ThreadPoolExecutor(JOBS) as ex:
        outs = list(ex.map(_harness_shard,
                           [(i, s, workdir, 30 + 0.3 * len(s)) for i, s in enumerate(shards)]))
    redo = []
    for (ok, res), shard in zip(outs, shards):
        results.update(res)
        if ok is not True:
            redo.extend(c for c in shard if c["id"] not in res)
    # cases of a failed shard are run one by one to find the culprit
    if redo:
        with ThreadPoolExecutor(JOBS) as ex:
            outs = list(ex.map(_harness_shard,
                               [(1000 + i, [c], workdir, per_case_timeout) for i, c in enumerate(redo)]))
        for (ok, res), c in zip(outs, redo):
            if c["id"] in res:
                results[c["id"]] = res[c["id"]]
            else:
                kind = ok if ok is not True else "crash"
                results[c["id"]] = [["verdict", kind], ["api_verdict", kind],
                                    ["asts"], ["files"], ["registry"]]
    return results


def model_case_text(hres, ptr, schedule):
    """the model's input for a harness result (the ASTs the real parser produced), or None when a
    file did not parse"""
    asts = sx.field(hres, "asts") or []
    mods = []
    for a in asts:
        if a[0] != "ast":
            return None
        mods.append("(%s %s)" % (sx.show(a[2]), sx.show(a[3])))
    return "(case (ptr %d) (schedule %s) (modules %s))" % (
        ptr, " ".join(str(k) for k in (schedule or [])), " ".join(mods))


def _big_stack():
    """the extracted model recurses on lists and character lists (tables of thousands of slots): give it the
    stack the hard limit allows"""
    import resource
    try:
        soft, hard = resource.getrlimit(resource.RLIMIT_STACK)
        resource.setrlimit(resource.RLIMIT_STACK, (hard, hard))
    except (ValueError, OSError):
        pass


def _model_shard(args):
    idx, lines, workdir = args
    inp = os.path.join(workdir, "mcases_%d.sexp" % idx)
    outp = os.path.join(workdir, "mout_%d.sexp" % idx)
    with open(inp, "w") as f:
        f.write("\n".join(lines) + "\n")
    p = subprocess.run([MODEL_BIN, inp, outp], stdout=subprocess.PIPE, stderr=subprocess.PIPE,
                       timeout=600, preexec_fn=_big_stack)
    if p.returncode != 0:
        raise BuildError("model runner failed: " + p.stderr.decode(errors="replace")[-2000:])
    return [sx.parse(l)[0][1:] for l in open(outp, errors="replace") if l.strip()]


def run_model(texts, workdir):
    """texts: list of case texts (one line each); returns the list of result field lists"""
    if not texts:
        return []
    nshards = min(JOBS, max(1, len(texts) // 8))
    bounds = [(len(texts) * i) // nshards for i in range(nshards + 1)]
    shards = [texts[bounds[i]:bounds[i + 1]] for i in range(nshards)]
    with ThreadPoolExecutor(JOBS) as ex:
        outs = list(ex.map(_model_shard, [(i, s, workdir) for i, s in enumerate(shards)]))
    res = []
    for o in outs:
        res.extend(o)
    return res


def rsdump_snippets(texts, workdir):
    """harness-side structure of user-supplied Rust text (prologues/epilogues)"""
    if not texts:
        return {}
    inp = os.path.join(workdir, "snips.sexp")
    outp = os.path.join(workdir, "snips.out")
    with open(inp, "w") as f:
        f.write("\n".join(sx.quote(t) for t in texts))
    subprocess.run([HARNESS_BIN, "snippets", inp, outp], check=True, timeout=120)
    lines = [l for l in open(outp, errors="replace")]
    return {t: sx.parse(l)[0] for t, l in zip(texts, lines)}


# ------------------------------------------------------------------------------------------------
# comparison


def verdict_class(v):
    """harness verdict -> ('ok'|'err'|'noprogress'|'panic'|'hang', detail)"""
    if v == "ok":
        return ("ok", None)
    if isinstance(v, list):
        if v[0] == "err":
            msg = sx.qtext(v[1]) if len(v) > 1 else ""
            if "type resolution will not terminate" in msg:
                return ("noprogress", noprogress_set(msg))
            return ("err", msg)
        if v[0] == "panic":
            return ("panic", sx.qtext(v[1]) if len(v) > 1 else "")
        if v[0] == "noprogress":
            return ("noprogress", sorted("::".join(sx.qtext(s) for s in p[1:]) for p in v[1:]))
    return (str(v), None)


def noprogress_set(msg):
    import re
    m = re.search(r"failed on types: \[(.*?)\] \(resolved types", msg, re.S)
    if not m:
        return None
    return sorted(re.findall(r'"((?:[^"\\]|\\.)*)"', m.group(1)))


def collect_opaque(mres):
    out = set()
    for f in sx.field(mres, "files") or []:
        for it in f[2][2:]:
            t = sx.tagged(it, "opaque")
            if t is not None:
                out.add(t[0])
    return out


def expand_opaque(mfile, snippets):
    """replace (opaque "text") by the items (and inner attributes) the harness sees for that text"""
    attrs = list(mfile[1])
    items = []
    for it in mfile[2:]:
        t = sx.tagged(it, "opaque")
        if t is None:
            items.append(it)
            continue
        d = snippets.get(t[0])
        if d is None or d[0] != "file":
            items.append(["unparsable-opaque", t[0]])
            continue
        attrs.extend(d[1][1:])
        items.extend(d[2:])
    return ["file", attrs] + items


def files_of(res):
    """{path: file sexp} of a harness or model result"""
    out = {}
    for f in sx.field(res, "files") or []:
        if f[0] != "f":
            continue
        path = sx.qtext(f[1])
        body = [x for x in f[2:] if isinstance(x, list) and x and x[0] in ("file", "unparsable")]
        out[path] = body[0] if body else None
    return out


def file_hashes(res):
    out = {}
    for f in sx.field(res, "files") or []:
        h = sx.field(f[2:], "hash")
        out[sx.qtext(f[1])] = tuple(h) if h else None
    return out


def first_diff(a, b, path=""):
    if isinstance(a, list) and isinstance(b, list):
        for i, (x, y) in enumerate(zip(a, b)):
            d = first_diff(x, y, path + "/%s" % (a[0] if i and isinstance(a[0], str) else i))
            if d:
                return d
        if len(a) != len(b):
            return "%s: length %d vs %d: %s | %s" % (path, len(a), len(b), sx.show(a)[:200], sx.show(b)[:200])
        return None
    if type(a) is not type(b) or a != b:
        return "%s: %s vs %s" % (path, sx.show(a)[:200], sx.show(b)[:200])
    return None


def sha(text):
    return hashlib.sha256(text.encode("utf-8", errors="replace")).hexdigest()[:16]


class Scratch:
    def __enter__(self):
        base = os.environ.get("VERIF_SCRATCH") or tempfile.gettempdir()
        self.dir = tempfile.mkdtemp(prefix="pyxis-verif-", dir=base)
        return self.dir

    def __exit__(self, *a):
        shutil.rmtree(self.dir, ignore_errors=True)
