#!/usr/bin/env python3
"""Regenerates the checks / not_applicable parts of MANIFEST.json from tools/props.py."""
import json, os, sys
sys.path.insert(0, os.path.dirname(os.path.abspath(__file__)))
import props

VERIF = os.path.dirname(os.path.dirname(os.path.abspath(__file__)))
ALL = ["C%02d" % i for i in range(1, 21)]
m = json.load(open(os.path.join(VERIF, "MANIFEST.json")))
checks = []
for pid in ALL:
    p = props.PROPS.get(pid)
    if not p or not os.path.exists(os.path.join(VERIF, "coq", "Properties", pid + ".v")):
        continue
    checks.append({
        "property_id": pid,
        "quick_cmd": "./check %s --tier quick" % pid,
        "thorough_cmd": "./check %s --tier thorough" % pid,
        "evidence_file": "evidence/%s.json" % pid,
        "replay_cmd_template": "./check %s --replay {path}" % pid,
        "engine": "coq-model",
        "level_claimed": {"category": "proof", "text": p["level_text"], "design_ref": p.get("design_ref", "DESIGN.md section 7, " + pid)},
        "level_note": p["level_note"],
        "technique": p.get("technique", "Coq proof about an executable Gallina model + correspondence check model vs implementation + monitors on the implementation's output"),
    })
m["checks"] = checks
claimed = {c["property_id"] for c in checks}
m["not_applicable"] = [{"property_id": pid, "reason": props.NOT_YET.get(pid, "check not built yet in this development (no theorem file); see DESIGN.md section 9 for the build order")}
                       for pid in ALL if pid not in claimed]
for e in m.get("engines", []):
    e["serves_properties"] = sorted(claimed)
json.dump(m, open(os.path.join(VERIF, "MANIFEST.json"), "w"), indent=1)
print("claimed:", sorted(claimed))
