"""rustc as an oracle: type-check of the emitted crate (C13) and layout queries (C01/C02/C08).

The emitted files are declared as a module tree mirroring the input, extern types are supplied
(appended to the module that references them as `crate::<module>::<Name>`), calling-convention
strings are normalised to "C" (rustc rejects thiscall & co. on the 64-bit host), and the crate is
compiled with `rustc --edition 2021 --crate-type lib --emit=metadata`."""
import os
import re
import subprocess

import sx

ABI_RE = re.compile(r'extern\s+"(thiscall|fastcall|stdcall|vectorcall|cdecl|system)"')


def texts_of(hres):
    out = {}
    for f in sx.field(hres, "files") or []:
        t = sx.field(f[2:], "text")
        if t is not None:
            out[sx.qtext(f[1])] = sx.qtext(t[0])
    return out


def extern_defs(hres):
    """{module tuple: [definition text]} for the declared extern types"""
    out = {}
    for it in sx.field(hres, "registry") or []:
        if it[2] == "extern":
            path = [sx.qtext(s) for s in it[1][1:]]
            size, align = int(it[4]), int(it[5])
            out.setdefault(tuple(path[:-1]), []).append(
                "#[repr(C, align(%d))] #[derive(Copy, Clone)] pub struct %s(pub [u8; %d]);\n"
                "impl Default for %s { fn default() -> Self { Self([0u8; %d]) } }\n"
                % (max(align, 1), path[-1], size, path[-1], size))
    return out


def assemble(hres, outdir, extra="", mod_extra=None):
    mod_extra = mod_extra or {}
    texts = texts_of(hres)
    ext = extern_defs(hres)
    tree = {}
    for rel in texts:
        parts = rel[:-3].split("/")
        node = tree
        for p in parts:
            node = node.setdefault(p, {})
    os.makedirs(outdir, exist_ok=True)
    for rel, text in texts.items():
        mod = tuple(rel[:-3].split("/"))
        body = ABI_RE.sub('extern "C"', text)
        # children of this module that exist only as directories
        node = tree
        for p in mod:
            node = node[p]
        decl = "".join("pub mod %s;\n" % c for c in sorted(node))
        body = body + "\n" + decl + "".join(ext.get(mod, [])) + mod_extra.get(mod, "")
        # nested modules live in <mod>/<child>.rs, which is where rustc looks for them
        path = os.path.join(outdir, rel)
        os.makedirs(os.path.dirname(path), exist_ok=True)
        # inner attributes must stay first: declarations are appended, not prepended
        with open(path, "w") as f:
            f.write(body)
    # modules that have children but no file of their own
    def fill(node, prefix):
        for name, child in node.items():
            rel = "/".join(prefix + [name]) + ".rs"
            if rel not in texts:
                path = os.path.join(outdir, rel)
                os.makedirs(os.path.dirname(path), exist_ok=True)
                with open(path, "w") as f:
                    f.write("".join("pub mod %s;\n" % c for c in sorted(child)) + "".join(ext.get(tuple(prefix + [name]), [])))
            fill(child, prefix + [name])
    fill(tree, [])
    with open(os.path.join(outdir, "lib.rs"), "w") as f:
        f.write("#![allow(warnings)]\n" + "".join("pub mod %s;\n" % c for c in sorted(tree)) + extra)
    return os.path.join(outdir, "lib.rs")


def typecheck(hres, workdir, name):
    d = os.path.join(workdir, "crate_" + name)
    lib = assemble(hres, d)
    p = subprocess.run(["rustc", "--edition", "2021", "--crate-type", "lib", "--emit=metadata",
                        "-o", os.path.join(d, "out.rmeta"), lib],
                       stdout=subprocess.PIPE, stderr=subprocess.PIPE, text=True, timeout=120, cwd=d)
    codes = sorted(set(re.findall(r"error\[(E\d+)\]", p.stderr)))
    return p.returncode == 0, codes, p.stderr[-200000:]


def layout_asserts(hres, exp):
    """{module tuple: Rust text} -- compile-time assertions placed in the module that defines each item:
    size_of / align_of of every defined item = the size / alignment pyxis resolved (registry dump), and
    offset_of of every declared field = the offset the description declares (generator expectation)"""
    out = {}
    for it in sx.field(hres, "registry") or []:
        if it[2] != "defined":
            continue
        path = [sx.qtext(x) for x in it[1][1:]]
        size, align = int(it[4]), int(it[5])
        if len(path) < 2:
            continue
        name = path[-1]
        out.setdefault(tuple(path[:-1]), []).append(
            'const _: () = { assert!(::core::mem::size_of::<%s>() == %d, "C02 size of %s resolved as %d"); '
            'assert!(::core::mem::align_of::<%s>() == %d, "C02 alignment of %s resolved as %d"); };\n'
            % (name, size, "::".join(path), size, name, align, "::".join(path), align))
    for key, t in ((exp or {}).get("types") or {}).items():
        path = key.split("::")
        if len(path) < 2:
            continue
        for f in t.get("fields", []):
            fname, off, zero = f[0], f[1], f[5]
            if zero:
                continue
            out.setdefault(tuple(path[:-1]), []).append(
                'const _: () = assert!(::core::mem::offset_of!(%s, %s) == %d, "C01 field %s.%s declared at %d");\n'
                % (path[-1], fname, off, key, fname, off))
    return {m: "".join(v) for m, v in out.items()}


def layout_check(hres, exp, workdir, name):
    """(ok, error codes, stderr): rustc on the emitted crate with the layout assertions appended"""
    d = os.path.join(workdir, "crate_" + name)
    lib = assemble(hres, d, mod_extra=layout_asserts(hres, exp))
    p = subprocess.run(["rustc", "--edition", "2021", "--crate-type", "lib", "--emit=metadata",
                        "-o", os.path.join(d, "out.rmeta"), lib],
                       stdout=subprocess.PIPE, stderr=subprocess.PIPE, text=True, timeout=120, cwd=d)
    codes = sorted(set(re.findall(r"error\[(E\d+)\]", p.stderr)))
    return p.returncode == 0, codes, p.stderr[-200000:]


# ---- the 32-bit (and msvc 64-bit) layout oracle: struct / enum definitions only, compiled without core ----
NOCORE_HEAD = """#![feature(no_core, lang_items, rustc_attrs, intrinsics, abi_vectorcall)]
#![no_core]
#![allow(dead_code, non_snake_case, non_camel_case_types, unused)]
#[lang = "pointee_sized"] pub trait PointeeSized {}
#[lang = "meta_sized"] pub trait MetaSized: PointeeSized {}
#[lang = "sized"] pub trait Sized: MetaSized {}
#[lang = "copy"] pub trait Copy {}
impl Copy for i128 {}
impl Copy for isize {}
impl Copy for i64 {}
impl Copy for usize {}
impl Copy for u8 {}
#[lang = "neg"] pub trait Neg { type Output; fn neg(self) -> Self::Output; }
impl Neg for isize { type Output = isize; fn neg(self) -> isize { loop {} } }
impl Neg for i64 { type Output = i64; fn neg(self) -> i64 { loop {} } }
impl Neg for i128 { type Output = i128; fn neg(self) -> i128 { loop {} } }
#[lang = "sub"] pub trait Sub<Rhs = Self> { type Output; fn sub(self, rhs: Rhs) -> Self::Output; }
impl Sub for i128 { type Output = i128; fn sub(self, rhs: i128) -> i128 { loop {} } }
#[rustc_intrinsic] pub const fn size_of<T>() -> usize;
#[rustc_intrinsic] pub const fn align_of<T>() -> usize;
#[repr(u8)] pub enum c_void { __A, __B }
"""
ITEM_RE = re.compile(r"^(pub(\([^)]*\))? )?(struct|enum) ([A-Za-z_][A-Za-z_0-9]*|r#[A-Za-z_0-9]+)\b")
TARGETS = {4: "i686-pc-windows-msvc", 8: "x86_64-pc-windows-msvc"}


def type_items(text):
    """the struct and enum definitions of a prettyplease-formatted file (items start in column 0), with their
    repr attributes only: [(name, text)]"""
    out, attrs, lines, i = [], [], text.split("\n"), 0
    while i < len(lines):
        ln = lines[i]
        if ln.startswith("#[repr("):
            attrs.append(ln)
        m = ITEM_RE.match(ln)
        if m:
            body = [ln]
            if not (ln.rstrip().endswith("}") or ln.rstrip().endswith(";")):
                i += 1
                while i < len(lines) and lines[i] != "}":
                    body.append(lines[i])
                    i += 1
                body.append("}")
            # drop helper attributes rustc cannot know without core (#[default]) and doc lines
            body = [b for b in body if b.strip() != "#[default]" and not b.strip().startswith("///") and not b.strip().startswith("#[doc")]
            out.append((m.group(4), "\n".join(attrs + body)))
            attrs = []
        elif not ln.startswith("#[") and not ln.startswith("///") and ln.strip():
            attrs = [] if not ln.startswith(" ") else attrs
        i += 1
    return out


INT_BITS = {"u8": 8, "i8": 8, "u16": 16, "i16": 16, "u32": 32, "i32": 32, "u64": 64, "i64": 64, "u128": 128, "i128": 128}


def nocore_crate(hres, ptr, exp=None):
    """(source text, [item paths]) -- every emitted struct/enum and the declared extern types, one inline module tree;
    with the generator's expectation, one constant per enum variant whose declared value fits the base type:
    its array length is (variant as i128) - declared value, its type says 0 -- a type error (E0308) names the variant
    whose compiled value is not the declared one"""
    texts = texts_of(hres)
    tree = {}
    items = []

    def node_of(mod):
        node = tree
        for p in mod:
            node = node.setdefault("mods", {}).setdefault(p, {})
        return node
    for rel, text in texts.items():
        mod = tuple(rel[:-3].split("/"))
        node = node_of(mod)
        for name, t in type_items(text):
            t = t.replace("::std::ffi::c_void", "crate::c_void")
            if ptr == 8:
                t = ABI_RE.sub('extern "C"', t)
            node.setdefault("items", []).append((name, t))
            items.append(mod + (name,))
            e = ((exp or {}).get("enums") or {}).get("::".join(mod + (name,)))
            if e and e["base"] in INT_BITS and e["base"] != "u128":
                bits, signed = INT_BITS[e["base"]], e["base"].startswith("i")
                lo, hi = (-(1 << (bits - 1)), (1 << (bits - 1)) - 1) if signed else (0, (1 << bits) - 1)
                for vname, v in e["cases"]:
                    if v is not None and lo <= v <= hi:
                        lit = "(-%di128)" % -v if v < 0 else "%di128" % v
                        node["items"].append(("", "pub const _DISCR_%s__%s: [u8; 0] = [0u8; ((%s::%s as i128) - %s) as usize];"
                                              % (name, vname, name, vname, lit)))
    for it in sx.field(hres, "registry") or []:
        if it[2] == "extern":
            path = [sx.qtext(s) for s in it[1][1:]]
            size, align = int(it[4]), int(it[5])
            node_of(tuple(path[:-1])).setdefault("items", []).append(
                (path[-1], "#[repr(C, align(%d))] pub struct %s(pub [u8; %d]);" % (max(align, 1), path[-1], size)))

    def render(node, depth):
        s = ""
        for name, t in node.get("items", []):
            s += t + "\n"
            if not name:
                continue
            s += "pub const _LAYOUT_%s: [usize; 2] = [crate::size_of::<%s>(), crate::align_of::<%s>()];\n" % (
                re.sub(r"\W", "_", name), name, name)
        for m, child in sorted(node.get("mods", {}).items()):
            s += "pub mod %s {\n%s}\n" % (m, render(child, depth + 1))
        return s
    return NOCORE_HEAD + render(tree, 0), items


SIZE_RE = re.compile(r"^print-type-size type: `([^`]+)`: (\d+) bytes, alignment: (\d+) bytes")
FIELD_RE = re.compile(r"^print-type-size     field `\.([^`]+)`: (\d+) bytes(?:, offset: (\d+) bytes)?")
PAD_RE = re.compile(r"^print-type-size     padding: (\d+) bytes")


def parse_type_sizes(out):
    """{path: (size, align, {field: offset})} from -Zprint-type-sizes"""
    res, cur, off = {}, None, 0
    for ln in out.split("\n"):
        m = SIZE_RE.match(ln)
        if m:
            cur = (m.group(1), int(m.group(2)), int(m.group(3)), {})
            res[cur[0]] = cur[1:]
            off = 0
            continue
        if cur is None:
            continue
        m = PAD_RE.match(ln)
        if m:
            off += int(m.group(1))
            continue
        m = FIELD_RE.match(ln)
        if m:
            if m.group(3) is not None:
                off = int(m.group(3))
            cur[3][m.group(1)] = off
            off += int(m.group(2))
    return res


def nocore_layout(hres, exp, workdir, name, ptr):
    """rustc (nightly, no core library) for a *-pc-windows-msvc target of the configured pointer width on the emitted
    struct/enum definitions: (compiled, error codes, stderr tail, mismatches) where mismatches lists
    ("C02"|"C01", text) for every item whose size/alignment differs from what pyxis resolved, and every declared
    field whose offset differs from the description"""
    d = os.path.join(workdir, "nocore_" + name)
    os.makedirs(d, exist_ok=True)
    src, items = nocore_crate(hres, ptr, exp)
    lib = os.path.join(d, "lib.rs")
    with open(lib, "w") as f:
        f.write(src)
    p = subprocess.run(["rustc", "+nightly", "--target", TARGETS[ptr], "--crate-type=lib", "--emit=metadata",
                        "-Zprint-type-sizes", "-o", os.path.join(d, "out.rmeta"), lib],
                       stdout=subprocess.PIPE, stderr=subprocess.PIPE, text=True, timeout=120, cwd=d)
    codes = sorted(set(re.findall(r"error\[(E\d+)\]", p.stderr)))
    wrong = sorted(set(re.findall(r"_DISCR_(\w+?)__(\w+)", p.stderr)))
    if p.returncode != 0 and codes == ["E0308"] and wrong:
        return True, [], "", [("C08", "variant %s::%s does not have its declared value when compiled for pointer width %d" % (a, b, ptr)) for a, b in wrong]
    if p.returncode != 0:
        if not codes:
            codes = sorted(set(re.findall(r"^error: ([^\n]{0,60})", p.stderr, re.M)))[:3]
        return False, codes, p.stderr[-20000:], []
    sizes = parse_type_sizes(p.stdout)
    bad = []
    for it in sx.field(hres, "registry") or []:
        if it[2] != "defined":
            continue
        path = [sx.qtext(x) for x in it[1][1:]]
        if len(path) < 2:
            continue
        key = "::".join(path)
        size, align = int(it[4]), int(it[5])
        got = sizes.get(key)
        if got is None:
            bad.append(("C02", "%s: no layout reported by rustc" % key))
        elif (got[0], got[1]) != (size, align):
            bad.append(("C02", "size/alignment of %s: rustc %d/%d, resolved %d/%d (pointer width %d)" % (key, got[0], got[1], size, align, ptr)))
    for key, t in ((exp or {}).get("types") or {}).items():
        got = sizes.get(key)
        if got is None:
            continue
        for f in t.get("fields", []):
            fname, off, zero = f[0], f[1], f[5]
            if zero:
                continue
            if got[2].get(fname) != off:
                bad.append(("C01", "field %s.%s: rustc offset %s, declared %d (pointer width %d)" % (key, fname, got[2].get(fname), off, ptr)))
    return True, [], "", bad
