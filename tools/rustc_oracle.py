"""rustc as an oracle: type-check of the emitted crate (C13) and layout queries (C01/C02/C08).

The emitted files are declared as a module tree mirroring the input, extern types are supplied
(appended to the module that references them as `crate::<module>::<Name>`), calling-convention
strings are normalised to "C" (rustc rejects thiscall & co. on the 64-bit host), and the crate is
compiled with `rustc --edition 2021 --crate-type lib --emit=metadata`."""
import os
import re
import subprocess

import sx

ABI_RE = re.compile(r'extern\s+"(thiscall|fastcall|stdcall|vectorcall|cdecl|system)"')


def texts_of(hres):
    out = {}
    for f in sx.field(hres, "files") or []:
        t = sx.field(f[2:], "text")
        if t is not None:
            out[sx.qtext(f[1])] = sx.qtext(t[0])
    return out


def extern_defs(hres):
    """{module tuple: [definition text]} for the declared extern types"""
    out = {}
    for it in sx.field(hres, "registry") or []:
        if it[2] == "extern":
            path = [sx.qtext(s) for s in it[1][1:]]
            size, align = int(it[4]), int(it[5])
            out.setdefault(tuple(path[:-1]), []).append(
                "#[repr(C, align(%d))] #[derive(Copy, Clone)] pub struct %s(pub [u8; %d]);\n"
                "impl Default for %s { fn default() -> Self { Self([0u8; %d]) } }\n"
                % (max(align, 1), path[-1], size, path[-1], size))
    return out


def assemble(hres, outdir, extra="", mod_extra=None):
    mod_extra = mod_extra or {}
    texts = texts_of(hres)
    ext = extern_defs(hres)
    tree = {}
    for rel in texts:
        parts = rel[:-3].split("/")
        node = tree
        for p in parts:
            node = node.setdefault(p, {})
    os.makedirs(outdir, exist_ok=True)
    for rel, text in texts.items():
        mod = tuple(rel[:-3].split("/"))
        body = ABI_RE.sub('extern "C"', text)
        # children of this module that exist only as directories
        node = tree
        for p in mod:
            node = node[p]
        decl = "".join("pub mod %s;\n" % c for c in sorted(node))
        body = body + "\n" + decl + "".join(ext.get(mod, [])) + mod_extra.get(mod, "")
        # nested modules live in <mod>/<child>.rs, which is where rustc looks for them
        path = os.path.join(outdir, rel)
        os.makedirs(os.path.dirname(path), exist_ok=True)
        # inner attributes must stay first: declarations are appended, not prepended
        with open(path, "w") as f:
            f.write(body)
    # modules that have children but no file of their own
    def fill(node, prefix):
        for name, child in node.items():
            rel = "/".join(prefix + [name]) + ".rs"
            if rel not in texts:
                path = os.path.join(outdir, rel)
                os.makedirs(os.path.dirname(path), exist_ok=True)
                with open(path, "w") as f:
                    f.write("".join("pub mod %s;\n" % c for c in sorted(child)) + "".join(ext.get(tuple(prefix + [name]), [])))
            fill(child, prefix + [name])
    fill(tree, [])
    with open(os.path.join(outdir, "lib.rs"), "w") as f:
        f.write("#![allow(warnings)]\n" + "".join("pub mod %s;\n" % c for c in sorted(tree)) + extra)
    return os.path.join(outdir, "lib.rs")


def typecheck(hres, workdir, name):
    d = os.path.join(workdir, "crate_" + name)
    lib = assemble(hres, d)
    p = subprocess.run(["rustc", "--edition", "2021", "--crate-type", "lib", "--emit=metadata",
                        "-o", os.path.join(d, "out.rmeta"), lib],
                       stdout=subprocess.PIPE, stderr=subprocess.PIPE, text=True, timeout=120)
    codes = sorted(set(re.findall(r"error\[(E\d+)\]", p.stderr)))
    return p.returncode == 0, codes, p.stderr[-200000:]


def layout_asserts(hres, exp):
    """{module tuple: Rust text} -- compile-time assertions placed in the module that defines each item:
    size_of / align_of of every defined item = the size / alignment pyxis resolved (registry dump), and
    offset_of of every declared field = the offset the description declares (generator expectation)"""
    out = {}
    for it in sx.field(hres, "registry") or []:
        if it[2] != "defined":
            continue
        path = [sx.qtext(x) for x in it[1][1:]]
        size, align = int(it[4]), int(it[5])
        if len(path) < 2:
            continue
        name = path[-1]
        out.setdefault(tuple(path[:-1]), []).append(
            'const _: () = { assert!(::core::mem::size_of::<%s>() == %d, "C02 size of %s resolved as %d"); '
            'assert!(::core::mem::align_of::<%s>() == %d, "C02 alignment of %s resolved as %d"); };\n'
            % (name, size, "::".join(path), size, name, align, "::".join(path), align))
    for key, t in ((exp or {}).get("types") or {}).items():
        path = key.split("::")
        if len(path) < 2:
            continue
        for f in t.get("fields", []):
            fname, off, zero = f[0], f[1], f[5]
            if zero:
                continue
            out.setdefault(tuple(path[:-1]), []).append(
                'const _: () = assert!(::core::mem::offset_of!(%s, %s) == %d, "C01 field %s.%s declared at %d");\n'
                % (path[-1], fname, off, key, fname, off))
    return {m: "".join(v) for m, v in out.items()}


def layout_check(hres, exp, workdir, name):
    """(ok, error codes, stderr): rustc on the emitted crate with the layout assertions appended"""
    d = os.path.join(workdir, "crate_" + name)
    lib = assemble(hres, d, mod_extra=layout_asserts(hres, exp))
    p = subprocess.run(["rustc", "--edition", "2021", "--crate-type", "lib", "--emit=metadata",
                        "-o", os.path.join(d, "out.rmeta"), lib],
                       stdout=subprocess.PIPE, stderr=subprocess.PIPE, text=True, timeout=120)
    codes = sorted(set(re.findall(r"error\[(E\d+)\]", p.stderr)))
    return p.returncode == 0, codes, p.stderr[-200000:]
