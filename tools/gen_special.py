"""Property-specific generators (C11 scoping, ...)."""
import collections
import random

import gen


def gen_c11(seed, ptr):
    """the same short names defined with different sizes in several modules; an observer module with
    a random mix of type imports, module imports and local definitions"""
    rng = random.Random(seed)
    names = ["T", "U", "u32", "Node"]
    nmods = rng.randint(2, 4)
    mods = []
    for i in range(nmods):
        depth = rng.randint(1, 3)
        mods.append(["d%d_%d" % (i, k) for k in range(depth)])
    defs = {}          # tuple(path) -> size
    files = {}
    size_pool = list(range(1, 40))
    rng.shuffle(size_pool)
    texts = {tuple(m): [] for m in mods}
    for m in mods:
        for n in names:
            if rng.random() < 0.6:
                k = size_pool.pop()
                defs[tuple(m + [n])] = k
                texts[tuple(m)].append("pub type %s { pub a: [u8; %d] }" % (n, k))
    obs = ["obs"] + (["inner"] if rng.random() < 0.4 else [])
    local = {}
    obs_items = []
    for n in names:
        if rng.random() < 0.35:
            k = size_pool.pop()
            local[n] = k
            defs[tuple(obs + [n])] = k
            obs_items.append("pub type %s { pub a: [u8; %d] }" % (n, k))
    uses = []
    for _ in range(rng.randint(0, 6)):
        m = rng.choice(mods)
        if rng.random() < 0.5:
            uses.append(list(m))
        else:
            n = rng.choice(names)
            # may name a type that does not exist: then it is simply a (useless) module path
            uses.append(m + [n])
    if rng.random() < 0.2 and uses:
        uses.append(list(rng.choice(uses)))

    def lookup(name):
        # 1. last type import with that name
        for u in reversed(uses):
            if tuple(u) in defs and u[-1] == name:
                return tuple(u)
        # 2. built-in
        if name in gen.PRIMS or name == "void":
            return (name,)
        # 3. same module
        if tuple(obs + [name]) in defs:
            return tuple(obs + [name])
        # 4. module imports, earlier first
        for u in uses:
            if tuple(u) not in defs and tuple(u + [name]) in defs:
                return tuple(u + [name])
        return None

    fields = []
    expect_fields = []
    total = 0
    ok = True
    for i, n in enumerate(rng.sample(names, rng.randint(1, len(names)))):
        b = lookup(n)
        if b is None:
            ok = False
            size = 0
        elif len(b) == 1:
            size = gen.PRIMS[b[0]][0]
        else:
            size = defs[b]
        fields.append("    pub f%d: %s" % (i, n))
        expect_fields.append(("f%d" % i, n, b, size))
        total += size
    # packed keeps the layout independent of alignment: size = sum of the bound types' sizes
    obs_items.append("#[packed]\npub type Obs {\n%s\n}" % ",\n".join(fields))
    arg = rng.choice(names)
    argb = lookup(arg)
    if argb is None:
        ok = False
    obs_items.append("impl Obs {\n    #[address(0x1000)]\n    pub fn probe(&self, p: *const %s) -> *mut %s;\n}" % (arg, arg))
    rng.shuffle(obs_items)
    for m in mods:
        files["/".join(m) + ".pyxis"] = "\n".join(texts[tuple(m)]) + "\n"
    if len(obs) > 1 and rng.random() < 0.7:
        # the enclosing module of a nested observer defines the same names; it is neither imported nor
        # otherwise in scope, so it must not take part in the observer's lookups
        parent_items = []
        for n in names:
            if rng.random() < 0.7 and size_pool:
                k = size_pool.pop()
                defs[tuple(obs[:-1] + [n])] = k
                parent_items.append("pub type %s { pub a: [u8; %d] }" % (n, k))
        files["/".join(obs[:-1]) + ".pyxis"] = "\n".join(parent_items) + "\n"
    files["/".join(obs) + ".pyxis"] = "".join("use %s;\n" % "::".join(u) for u in uses) + "\n".join(obs_items) + "\n"
    exp = dict(types={}, enums={}, vftables={}, funcs={}, externs={}, miss=None if ok else "unresolvable name",
               c11=dict(obs="::".join(obs + ["Obs"]), fields=[(f, n, list(b) if b else None, s) for f, n, b, s in expect_fields],
                        total=total, arg=(arg, list(argb) if argb else None), resolvable=ok))
    return files, exp


def gen_c10(seed, ptr):
    """random dependency graphs: by-value / array / base / pointer edges, undefined names in every
    position; returns the expected stuck set computed from the graph (the property's wording)"""
    rng = random.Random(seed)
    n = rng.randint(2, 12)
    nmods = rng.randint(1, 4)
    mods = [["g%d" % i] for i in range(nmods)]
    owner = [rng.randrange(nmods) for _ in range(n)]
    names = ["N%d" % i for i in range(n)]
    kind = ["enum" if rng.random() < 0.15 else "type" for _ in range(n)]
    mode = rng.random()
    p_cycle = 0.0 if mode < 0.45 else 0.35
    p_undef = 0.0 if mode < 0.6 else 0.12
    byvalue = collections.defaultdict(set)     # i -> set of j (by-value dependencies)
    undefined_field = set()
    hard_error = False                          # undefined name in parameter / return / extern value
    texts = collections.defaultdict(list)
    extra_uses = collections.defaultdict(list)
    for i in range(n):
        if kind[i] == "enum":
            k = rng.random()
            if k < p_undef:
                base = "Missing%d" % i
                undefined_field.add(i)
            elif k < p_undef + 0.1 and i > 0:
                j = rng.randrange(n)
                base = names[j]
                byvalue[i].add(j)
            else:
                base = rng.choice(["u8", "u32", "i64"])
            texts[owner[i]].append("pub enum %s: %s { A, B }" % (names[i], base))
            continue
        fields = []
        for f in range(rng.randint(0, 4)):
            k = rng.random()
            # earlier items are safe targets; later or equal ones may close a cycle
            if rng.random() < p_cycle:
                j = rng.randrange(n)
            else:
                j = rng.randrange(i) if i > 0 else None
            if rng.random() < p_undef:
                t = rng.choice(["Missing%d_%d" % (i, f), "[Missing%d_%d; 2]" % (i, f), "*const Missing%d_%d" % (i, f),
                                "*mut MissingU%d_%d" % (i, f)])
                if "MissingU" in t:
                    # the undefined name is even imported by name (`use g::MissingU..;`): an import of something that does
                    # not exist defines nothing -- also behind a pointer the name stays undefined
                    extra_uses[owner[i]].append("use %s::MissingU%d_%d;" % ("::".join(mods[rng.randrange(nmods)]), i, f))
                undefined_field.add(i)
                fields.append("    pub f%d: %s" % (f, t))
                continue
            if j is None or (kind[j] == "enum" and k >= 0.8):
                fields.append("    pub f%d: %s" % (f, rng.choice(["u8", "u32", "*const u8"])))
                continue
            if k < 0.35:
                fields.append("    pub f%d: %s" % (f, names[j]))
                byvalue[i].add(j)
            elif k < 0.5:
                # a zero-length array still embeds its element type by value (it has no size until the element has one)
                fields.append("    pub f%d: [%s; %d]" % (f, names[j], rng.choice([0, 0, 1, 2, 3])))
                byvalue[i].add(j)
            elif k < 0.6 and kind[j] == "type":
                fields.append("    #[base] pub f%d: %s" % (f, names[j]))
                byvalue[i].add(j)
            else:
                # pointers may point anywhere, also into cycles
                jj = rng.randrange(n)
                fields.append("    pub f%d: *%s %s" % (f, rng.choice(["const", "mut"]), names[jj]))
        texts[owner[i]].append("#[packed]\npub type %s {\n%s\n}" % (names[i], ",\n".join(fields)))
        if rng.random() < 0.3:
            jj = rng.randrange(n)
            k = rng.random()
            if k < p_undef:
                sig = "(&self, a: *const MissingP%d)" % i
                hard_error = True
            elif k < 2 * p_undef:
                sig = "(&self) -> MissingR%d" % i
                hard_error = True
            else:
                sig = "(&self, a: *mut %s) -> *const %s" % (names[jj], names[i])
            texts[owner[i]].append("impl %s {\n    #[address(0x%x)]\n    pub fn m%d%s;\n}" % (names[i], 0x1000 + i, i, sig))
    if rng.random() < p_undef:
        texts[0].append("#[address(0x10)]\npub extern gx: *const MissingX;")
        hard_error = True
    # stuck = least set containing the items with an undefined field name or on a by-value cycle,
    # closed under "depends by value on a stuck item" (computed as a greatest fixpoint of resolvable)
    resolvable = set()
    changed = True
    while changed:
        changed = False
        for i in range(n):
            if i not in resolvable and i not in undefined_field and all(j in resolvable for j in byvalue[i]):
                resolvable.add(i)
                changed = True
    stuck = sorted("::".join(mods[owner[i]] + [names[i]]) for i in range(n) if i not in resolvable)
    files = {}
    for mi, m in enumerate(mods):
        items = texts[mi]
        rng.shuffle(items)
        uses = "".join("use %s;\n" % "::".join(o) for oi, o in enumerate(mods) if oi != mi) + "".join(u + "\n" for u in extra_uses[mi])
        files["/".join(m) + ".pyxis"] = uses + "\n".join(items) + "\n"
    exp = dict(types={}, enums={}, vftables={}, funcs={}, externs={}, miss=None,
               c10=dict(stuck=stuck, hard_error=hard_error, n=n,
                        all_items=sorted("::".join(mods[owner[i]] + [names[i]]) for i in range(n))))
    return files, exp


def gen_c15_shadow(seed, ptr):
    """extern values whose type name is defined both in the declaring module and in a module it imports (by module):
    the declaring module's own definition is the one the rules select -- in by-value, pointer and array positions.
    Returns (files, exp) in the shape gen.generate uses (no types with singletons; externs carry `want_path`)."""
    rng = random.Random(seed)
    name = rng.choice(["Channel", "Config", "Slot"])
    first, second = rng.choice([("audio", "video"), ("zlib", "app"), ("core", "game")])
    k1, k2 = 4 * rng.randint(1, 8), 4 * rng.randint(9, 16)
    files = {first + ".pyxis": "pub type %s { pub a: [u8; %d] }\n" % (name, k1)}
    owner = second
    text = "use %s;\npub type %s { pub b: [u8; %d] }\n" % (first, name, k2)
    exp = dict(types={}, enums={}, vftables={}, funcs={}, externs={}, miss=None)
    forms = [("g_val", "%s"), ("g_ptr", "*mut %s"), ("g_arr", "[%s; 4]"), ("g_pp", "*const *mut %s")]
    rng.shuffle(forms)
    for i, (g, form) in enumerate(forms[:rng.randint(2, 4)]):
        addr = 0x10000 + 0x100 * i + 16 * rng.randint(0, 9)
        pub = rng.random() < 0.7
        text += "#[address(0x%x)]\n%sextern %s: %s;\n" % (addr, "pub " if pub else "", g, form % name)
        exp["externs"]["%s::%s" % (owner, g)] = dict(addr=addr, type=form % name, pub=pub,
                                                    want_path="crate::%s::%s" % (owner, name), not_path="crate::%s::%s" % (first, name))
    files[owner + ".pyxis"] = text
    exp["modules"] = {first: dict(doc=[], pro=None, epi=None), owner: dict(doc=[], pro=None, epi=None)}
    return files, exp


def gen_c07_namesakes(seed, ptr):
    """base types that share their simple name but live in different modules, reached through intermediate bases:
    each is a different type, so a conversion to each exists unless that very type is reached twice.
    Returns (files, exp) in the shape gen.generate uses (the keys mon_c07 reads)."""
    rng = random.Random(seed)
    base = rng.choice(["Base", "Object", "Node"])
    m1, m2 = rng.choice([("a", "b"), ("gfx", "audio"), ("core", "game::core")])
    p1, p2 = m1.split("::"), m2.split("::")
    same = rng.random() < 0.25          # both intermediates derive from the SAME type: then no conversion to it
    files = {}
    exp = dict(types={}, enums={}, vftables={}, funcs={}, externs={}, miss=None)

    def add(path, fields, base_fields, size):
        exp["types"]["::".join(path)] = dict(
            fields=fields, size=size, align=4, packed=False, own_vftable=False, has_vftable=False, slots=[], slot_descs=[],
            declared_vft=False, copyable=False, cloneable=False, defaultable=False, singleton=None, pub=True, doc=[],
            impls=[], bases=[b for _, b in base_fields], base_fields=base_fields, field_meta={})

    k1, k2 = 4 * rng.randint(1, 3), 4 * rng.randint(4, 6)
    t1 = "pub type %s { pub v: [u8; %d] }\n" % (base, k1)
    add(p1 + [base], [("v", 0, k1, "[u8; %d]" % k1, False, False)], [], k1)
    bf1, bf2 = rng.choice(["base", "inner", "b"]), rng.choice(["base", "inner", "b"])
    t1 += "pub type MidA { #[base] pub %s: %s, pub x: u32 }\n" % (bf1, base)
    add(p1 + ["MidA"], [], [(bf1, "::".join(p1 + [base]))], k1 + 4)
    if same:
        t2 = "use %s::%s;\n" % ("::".join(p1), base)
        target2 = p1 + [base]
        s2 = k1
    else:
        t2 = "pub type %s { pub w: [u8; %d] }\n" % (base, k2)
        add(p2 + [base], [("w", 0, k2, "[u8; %d]" % k2, False, False)], [], k2)
        target2 = p2 + [base]
        s2 = k2
    t2 += "pub type MidB { #[base] pub %s: %s, pub y: u32 }\n" % (bf2, base)
    add(p2 + ["MidB"], [], [(bf2, "::".join(target2))], s2 + 4)
    files["/".join(p1) + ".pyxis"] = t1
    files["/".join(p2) + ".pyxis"] = t2
    if len(p2) > 1 and "/".join(p2[:-1]) + ".pyxis" not in files:
        files["/".join(p2[:-1]) + ".pyxis"] = "\n"
    d = rng.choice(["d", "scene"])
    fa, fb = "ma", "mb"
    order = [(fa, p1 + ["MidA"]), (fb, p2 + ["MidB"])]
    if rng.random() < 0.5:
        order.reverse()
    td = "use %s::MidA;\nuse %s::MidB;\npub type Derived {\n%s\n}\n" % (
        "::".join(p1), "::".join(p2), ",\n".join("    #[base] pub %s: %s" % (f, p[-1]) for f, p in order))
    add([d, "Derived"], [], [(f, "::".join(p)) for f, p in order], k1 + 4 + s2 + 4)
    files[d + ".pyxis"] = td
    return files, exp
