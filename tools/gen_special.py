"""Property-specific generators (C11 scoping, ...)."""
import random

import gen


def gen_c11(seed, ptr):
    """the same short names defined with different sizes in several modules; an observer module with
    a random mix of type imports, module imports and local definitions"""
    rng = random.Random(seed)
    names = ["T", "U", "u32", "Node"]
    nmods = rng.randint(2, 4)
    mods = []
    for i in range(nmods):
        depth = rng.randint(1, 3)
        mods.append(["d%d_%d" % (i, k) for k in range(depth)])
    defs = {}          # tuple(path) -> size
    files = {}
    size_pool = list(range(1, 40))
    rng.shuffle(size_pool)
    texts = {tuple(m): [] for m in mods}
    for m in mods:
        for n in names:
            if rng.random() < 0.6:
                k = size_pool.pop()
                defs[tuple(m + [n])] = k
                texts[tuple(m)].append("pub type %s { pub a: [u8; %d] }" % (n, k))
    obs = ["obs"] + (["inner"] if rng.random() < 0.4 else [])
    local = {}
    obs_items = []
    for n in names:
        if rng.random() < 0.35:
            k = size_pool.pop()
            local[n] = k
            defs[tuple(obs + [n])] = k
            obs_items.append("pub type %s { pub a: [u8; %d] }" % (n, k))
    uses = []
    for _ in range(rng.randint(0, 6)):
        m = rng.choice(mods)
        if rng.random() < 0.5:
            uses.append(list(m))
        else:
            n = rng.choice(names)
            # may name a type that does not exist: then it is simply a (useless) module path
            uses.append(m + [n])
    if rng.random() < 0.2 and uses:
        uses.append(list(rng.choice(uses)))

    def lookup(name):
        # 1. last type import with that name
        for u in reversed(uses):
            if tuple(u) in defs and u[-1] == name:
                return tuple(u)
        # 2. built-in
        if name in gen.PRIMS or name == "void":
            return (name,)
        # 3. same module
        if tuple(obs + [name]) in defs:
            return tuple(obs + [name])
        # 4. module imports, earlier first
        for u in uses:
            if tuple(u) not in defs and tuple(u + [name]) in defs:
                return tuple(u + [name])
        return None

    fields = []
    expect_fields = []
    total = 0
    ok = True
    for i, n in enumerate(rng.sample(names, rng.randint(1, len(names)))):
        b = lookup(n)
        if b is None:
            ok = False
            size = 0
        elif len(b) == 1:
            size = gen.PRIMS[b[0]][0]
        else:
            size = defs[b]
        fields.append("    pub f%d: %s" % (i, n))
        expect_fields.append(("f%d" % i, n, b, size))
        total += size
    # packed keeps the layout independent of alignment: size = sum of the bound types' sizes
    obs_items.append("#[packed]\npub type Obs {\n%s\n}" % ",\n".join(fields))
    arg = rng.choice(names)
    argb = lookup(arg)
    if argb is None:
        ok = False
    obs_items.append("impl Obs {\n    #[address(0x1000)]\n    pub fn probe(&self, p: *const %s) -> *mut %s;\n}" % (arg, arg))
    rng.shuffle(obs_items)
    for m in mods:
        files["/".join(m) + ".pyxis"] = "\n".join(texts[tuple(m)]) + "\n"
    files["/".join(obs) + ".pyxis"] = "".join("use %s;\n" % "::".join(u) for u in uses) + "\n".join(obs_items) + "\n"
    exp = dict(types={}, enums={}, vftables={}, funcs={}, externs={}, miss=None if ok else "unresolvable name",
               c11=dict(obs="::".join(obs + ["Obs"]), fields=[(f, n, list(b) if b else None, s) for f, n, b, s in expect_fields],
                        total=total, arg=(arg, list(argb) if argb else None), resolvable=ok))
    return files, exp
