import sys, glob, os
import sx, pyxlib as P
def main():
    cases=[]
    for f in sorted(glob.glob('/repo/codegen_tests/input/*.pyxis')):
        cases.append({'id':os.path.basename(f),'ptr':4,'schedule':[],'files':{'m/'+os.path.basename(f):open(f).read()}})
    cases.append({'id':'s','ptr':4,'schedule':[],'files':{'m/s.pyxis':open('/tmp/h/s.pyxis').read(),'other.pyxis':open('/tmp/h/o.pyxis').read()}})
    for f in sys.argv[1:]:
        cases.append({'id':f,'ptr':4,'schedule':[],'files':{'a.pyxis':open(f).read()}})
    with P.Scratch() as d:
        hres=P.run_harness(cases,d)
        texts=[]; ids=[]
        for c in cases:
            t=P.model_case_text(hres[c['id']],c['ptr'],c['schedule'])
            if t: texts.append(t); ids.append(c['id'])
        mres=dict(zip(ids,P.run_model(texts,d)))
        ops=set()
        for m in mres.values(): ops|=P.collect_opaque(m)
        snips=P.rsdump_snippets(sorted(ops),d)
        for c in cases:
            h=hres[c['id']]; m=mres.get(c['id'])
            hv=P.verdict_class(sx.field(h,'verdict')[0]); 
            if m is None: print(c['id'],'no model run',hv); continue
            mv=P.verdict_class(sx.field(m,'verdict')[0])
            print(c['id'],hv[0],mv[0], hv[1] if hv[0]!='ok' else '', mv[1] if mv[0]!='ok' else '')
            if hv[0]=='ok' and mv[0]=='ok':
                hf=P.files_of(h); mf=P.files_of(m)
                if sorted(hf)!=sorted(mf): print('  file sets differ',sorted(hf),sorted(mf))
                for k in hf:
                    if k in mf:
                        d_=P.first_diff(hf[k],P.expand_opaque(mf[k],snips))
                        if d_: print('  DIFF',k,d_)
                d_=P.first_diff(sx.field(h,'registry'),sx.field(m,'registry'))
                if d_: print('  REGDIFF',d_)
main()
