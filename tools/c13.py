"""C13 runner: correspondence on verdicts + the type-check oracle (rustc on the implementation's files)."""
import collections
import json
import os
import re
from concurrent.futures import ThreadPoolExecutor

import sx
import engine
import props
import rustc_oracle
import pyxlib as P

# rustc error code -> (known-finding class, predicate on (case files text, stderr))
def _any(files, pat):
    return any(re.search(pat, t, re.S) for t in files.values())


def _blocks(err, code):
    """the diagnostics of one error code, one string per occurrence"""
    parts = re.split(r"(?m)^(?=error(?:\[E\d+\])?:)", err)
    return [b for b in parts if b.startswith("error[%s]" % code)]


KF_RUSTC = [
    ("E0588", "KF_packed_contains_aligned", lambda files, err: _any(files, r"packed")),
    ("E0424", "KF_receiverless_forward", lambda files, err: any("vftable()" not in b for b in _blocks(err, "E0424"))),
    ("E0424", "KF_receiverless_vfunc", lambda files, err: any("self.vftable()" in b for b in _blocks(err, "E0424"))),
    ("E0616", "KF_private_slot_cross_module", lambda files, err: "Vftable` is private" in err),
    ("E0512", "KF_void_value", lambda files, err: props.uses_void_by_value(files)),
    ("E0084", "KF_enum_no_variants", lambda files, err: True),
    ("E0081", "KF_enum_duplicate_values", lambda files, err: True),
    ("E0552", "KF_enum_non_integer_base", lambda files, err: True),
    ("E0124", "KF_field_named_vftable", lambda files, err: "vftable" in err),
    ("E0204", "KF_copyable_unchecked", lambda files, err: True),
]


def classify(codes, files, err):
    """returns the list of KF classes explaining *all* error codes, or None if some code is unexplained"""
    classes = []
    for c in codes:
        hit = [cls for code, cls, pred in KF_RUSTC if code == c and pred(files, err)]
        if not hit:
            return None
        classes.extend(hit)
    return classes


def runner(pid, prop, tier, seed, scratch, replay=None):
    n, noracle = (200, 48) if tier == "quick" else (3000, 1500)
    if replay:
        doc = json.load(open(os.path.join(P.VERIF, replay) if not os.path.isabs(replay) else replay))
        c = doc.get("case") or {}
        cases = [dict(id=c.get("id", "replay"), ptr=c.get("ptr", 8), schedule=[], files=c.get("files", {}), exp=None, text=True)]
    else:
        cases = props.load_corpus(prop.get("corpus", ["common"])) + props.gen_cases(pid, prop, n, seed)
        for c in cases:
            c["ptr"] = 8          # the type-check oracle is the 64-bit host
            c["text"] = True
        # regenerate with ptr 8 so that layouts are consistent
        regen = []
        for c in cases:
            if c.get("gseed") is not None:
                import gen
                files, exp = gen.generate(c["gseed"], 8, prop.get("profile"))
                c = dict(c, files=files, exp=exp)
            regen.append(c)
        cases = regen
    results = engine.run(cases, scratch)
    out = dict(evaluations=len(results), failures=[], breaks=[], samples=[], notes=[])
    dist = collections.Counter()
    accepted = []
    for r in results:
        dist["impl_" + r.hv[0]] += 1
        for asp, det in r.diffs:
            if asp in ("verdict", "fileset", "unparsable"):
                out["breaks"].append(dict(aspect=asp, detail=det, case=props.summarise_case(r.case)))
        if r.hv[0] == "ok":
            accepted.append(r)
            for rel, f in r.hfiles.items():
                if f is None or f[0] != "file":
                    out["failures"].append(dict(clause="C13.syntax", detail="%s is not syntactically valid Rust" % rel,
                                                case=props.summarise_case(r.case)))
    todo = accepted[:noracle]

    def job(r):
        try:
            return rustc_oracle.typecheck(r.h, scratch, re.sub(r"\W", "_", r.case["id"]))
        except Exception as e:  # noqa
            return (False, ["oracle-error"], str(e))

    with ThreadPoolExecutor(P.JOBS) as ex:
        verdicts = list(ex.map(job, todo))
    oracle = collections.Counter()
    nontrivial = 0
    seen = set()
    for r, (ok, codes, err) in zip(todo, verdicts):
        h = props.sha_files(r.case["files"])
        if h not in seen:
            seen.add(h)
            nontrivial += 1
        if ok:
            oracle["rustc_accepts"] += 1
            continue
        classes = classify(codes, r.case["files"], err)
        if classes:
            for cls in sorted(set(classes)):
                oracle["rustc_rejects_known:" + cls] += 1
                out["failures"].append(dict(clause="C13.typecheck", kf=cls, detail="rustc %s" % codes,
                                            case=props.summarise_case(r.case)))
        else:
            oracle["rustc_rejects_UNEXPLAINED"] += 1
            out["failures"].append(dict(clause="C13.typecheck", detail="rustc rejects the emitted crate: %s\n%s" % (codes, err[-1500:]),
                                        case=props.summarise_case(r.case)))
        if replay:
            print("replay: rustc %s %s\n%s" % ("accepts" if ok else "rejects", codes, err[-1500:]))
    # the struct / enum definitions alone, compiled for i686-pc-windows-msvc (pointer width 4) without the core library
    if not replay:
        import gen
        cases4 = []
        for c in cases:
            if c.get("gseed") is not None and len(cases4) < noracle:
                files, exp = gen.generate(c["gseed"], 4, prop.get("profile"))
                cases4.append(dict(id=c["id"] + "-w4", ptr=4, schedule=[], files=files, exp=exp, text=True))
        res4 = []
        for b0 in range(0, len(cases4), 300):
            res4 += [r for r in engine.run(cases4[b0:b0 + 300], scratch, want_model=False) if r.hv[0] == "ok"]

        def job4(r):
            try:
                return rustc_oracle.nocore_layout(r.h, None, scratch, re.sub(r"\W", "_", r.case["id"]), 4)
            except Exception as e:  # noqa
                return (False, ["oracle-error"], str(e), [])
        with ThreadPoolExecutor(P.JOBS) as ex:
            verdicts4 = list(ex.map(job4, res4))
        for r, (ok, codes, err, bad) in zip(res4, verdicts4):
            if ok:
                oracle["i686_definitions_accepted"] += 1
                continue
            classes = classify(codes, r.case["files"], err) if all(re.match(r"E\d+$", c) for c in codes) else None
            if classes:
                for cls in sorted(set(classes)):
                    oracle["i686_rejects_known:" + cls] += 1
                    out["failures"].append(dict(clause="C13.typecheck_i686", kf=cls, detail="rustc (i686) %s" % codes,
                                                case=props.summarise_case(r.case)))
            elif codes == ["E0603"] or codes == ["E0412"]:
                # a private type named from another module: outside the documented fragment (public types for cross-module use)
                oracle["i686_outside_fragment:%s" % codes[0]] += 1
            else:
                oracle["i686_rejects_UNEXPLAINED"] += 1
                out["failures"].append(dict(clause="C13.typecheck_i686", detail="rustc for i686-pc-windows-msvc rejects the emitted definitions: %s\n%s" % (codes, err[-1500:]),
                                            case=props.summarise_case(r.case)))
        out["evaluations"] += len(cases4)
    out["distinct_nontrivial"] = nontrivial
    out["distribution"] = dict(dist)
    out["oracle"] = dict(oracle)
    out["samples"] = [dict(id=r.case["id"], ptr=8, files=r.case["files"], rustc="accepts" if v[0] else "rejects %s" % v[1])
                      for r, v in list(zip(todo, verdicts))[:2]] or [dict(note="no accepted case")]
    return out
