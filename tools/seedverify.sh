#!/bin/bash
# seedverify.sh <Cnn> <sid>: confirm a sub-agent's seeded change in its scratch worktree /tmp/wt/<Cnn>
# (62 tests pass with the patch; demo exits 1 with, 0 without) and store it under seeded/<sid>/.
set -u
P=$1; SID=$2; WT=${WT:-/tmp/wt}; W=$WT/$P; D=/verif/seeded/$SID
cd $W || exit 2
git diff --quiet HEAD -- src Cargo.toml && { echo "patch not applied; applying"; git apply seed/patch.diff || exit 2; }
T=$(CARGO_NET_OFFLINE=true cargo test --workspace --no-fail-fast --offline 2>&1 | grep -E "^test result" | awk '{p+=$4; f+=$6} END{print p" passed "f" failed"}')
echo "tests with patch: $T"
bash seed/demo/run.sh > $WT/$P.with.log 2>&1; W1=$?
git apply -R seed/patch.diff || exit 2
bash seed/demo/run.sh > $WT/$P.without.log 2>&1; W0=$?
git apply seed/patch.diff
echo "demo exit with=$W1 without=$W0"
mkdir -p $D && cp seed/patch.diff $D/ && cp seed/README.md $D/ && rm -rf $D/demo && cp -r seed/demo $D/demo
find $D/demo \( -name target -o -name out \) -prune -exec rm -rf {} + 2>/dev/null
du -sh $D | cut -f1
echo "$T; demo with=$W1 without=$W0" > $D/.confirm
