#!/usr/bin/env python3
"""seedtest.py <seeded id> [Cnn ...]: applies seeded/<id>/patch.diff to /repo, runs the given checks
(quick tier; default: the property the change targets), undoes the change, records the outcome in
seeded/<id>/detection.json.  The change is never committed."""
import json, os, subprocess, sys, time
VERIF = os.path.dirname(os.path.dirname(os.path.abspath(__file__)))
sid = sys.argv[1]
d = os.path.join(VERIF, "seeded", sid)
meta = json.load(open(os.path.join(d, "meta.json")))
pids = sys.argv[2:] or [meta["property"]]
tier = os.environ.get("SEED_TIER", "quick")
assert subprocess.run(["git", "-C", "/repo", "status", "--porcelain", "--untracked-files=no"], capture_output=True, text=True).stdout.strip() == "", "/repo is not clean"
subprocess.run(["git", "-C", "/repo", "apply", os.path.join(d, "patch.diff")], check=True)
out = {}
try:
    for pid in pids:
        t = time.time()
        cmd = [os.path.join(VERIF, "check"), pid, "--tier", tier]
        if os.environ.get("SEED_NO_COQ"):
            cmd.append("--no-coq")      # regression runs over all stored changes: the Coq step does not depend on /repo
        p = subprocess.run(cmd, capture_output=True, text=True)
        lines = [l for l in p.stdout.splitlines() if l.startswith("VIOLATION") or l.startswith("check ")]
        out[pid] = dict(exit=p.returncode, lines=lines[:4], seconds=round(time.time() - t, 1))
        print(pid, "exit", p.returncode, *lines[:3], sep="\n   ")
finally:
    subprocess.run(["git", "-C", "/repo", "checkout", "--", "."], check=True)
prev = {}
pth = os.path.join(d, "detection.json")
if os.path.exists(pth):
    prev = json.load(open(pth))
prev.update(out)
json.dump(prev, open(pth, "w"), indent=1)
