#!/usr/bin/env python3
"""./check Cnn [--tier quick|thorough] [--replay file]

One property per invocation.  Steps (DESIGN.md section 6):
  1. Coq: full build of the development (cached), forced re-check of Properties/Cnn.v with its
     Print Assumptions output, statement hash, forbidden-word scan.
  2. Rebuild harness (real pyxis from /repo's working tree, hooks on) and the extracted model.
  3. Corpus + generated cases through implementation and model; property-specific aspects of the
     correspondence; property-specific monitors on the implementation's own output; oracles.
  4. Classification (violation / known finding), evidence file, exit code.
"""
import argparse
import hashlib
import json
import os
import re
import subprocess
import sys
import time

sys.path.insert(0, os.path.dirname(os.path.abspath(__file__)))
import pyxlib as P  # noqa: E402
import props  # noqa: E402

VERIF = P.VERIF
EVID = os.path.join(VERIF, "evidence")
REPLAYS = os.path.join(EVID, "replays")

FORBIDDEN = re.compile(r"\b(Admitted|admit|Axiom|Axioms|Parameter|Parameters|Conjecture|Admit Obligations)\b|Unset Guard|bypass_check|type-in-type|impredicative-set|Unset Universe|Unset Positivity")


def scan_sources():
    """forbidden vernacular anywhere in the development; Variable/Hypothesis only inside sections"""
    problems = []
    for root, _, files in os.walk(P.COQ_DIR):
        for fn in sorted(files):
            if not fn.endswith(".v"):
                continue
            path = os.path.join(root, fn)
            text = open(path).read()
            # drop comments (nested) before scanning
            out, depth, i = [], 0, 0
            while i < len(text):
                if text.startswith("(*", i):
                    depth += 1
                    i += 2
                elif text.startswith("*)", i) and depth:
                    depth -= 1
                    i += 2
                else:
                    if not depth:
                        out.append(text[i])
                    i += 1
            code = "".join(out)
            for m in FORBIDDEN.finditer(code):
                problems.append("%s: %s" % (os.path.relpath(path, VERIF), m.group(0)))
            depth = 0
            for line in code.split("\n"):
                s = line.strip()
                if re.match(r"^(Section|Module Type|Module)\b", s) and ":=" not in s:
                    depth += 1
                elif re.match(r"^End\b", s):
                    depth = max(0, depth - 1)
                elif re.match(r"^(Variable|Variables|Hypothesis|Hypotheses|Context)\b", s) and depth == 0:
                    problems.append("%s: %s outside a section" % (os.path.relpath(path, VERIF), s[:60]))
    return problems


ALLOWED_ASSUMPTIONS = set()   # nothing beyond "Closed under the global context"


def coq_step(pid, scratch):
    """returns dict(ok, obligations, discharged, theorems, assumptions, log, problems)"""
    res = dict(ok=False, obligations=0, discharged=0, theorems=[], assumptions={}, problems=[], log="")
    vfile = os.path.join(P.COQ_DIR, "Properties", pid + ".v")
    if not os.path.exists(vfile):
        res["problems"].append("no Properties/%s.v" % pid)
        return res
    text = open(vfile).read()
    theorems = re.findall(r"^(?:Theorem|Lemma|Corollary|Example)\s+([A-Za-z0-9_']+)", text, re.M)
    res["theorems"] = theorems
    res["obligations"] = len(theorems)
    # statement pin
    pins = {}
    pinfile = os.path.join(P.COQ_DIR, "Properties", "STATEMENTS.sha256")
    if os.path.exists(pinfile):
        for line in open(pinfile):
            parts = line.split()
            if len(parts) == 2:
                pins[parts[1]] = parts[0]
    h = hashlib.sha256(text.encode()).hexdigest()
    if pins.get(pid + ".v") != h:
        res["problems"].append("statement file Properties/%s.v does not match its pinned hash" % pid)
    res["problems"].extend(scan_sources())
    try:
        rc, out = P.build_coq()
    except Exception as e:  # timeout etc.
        rc, out = 1, str(e)
    res["log"] = out[-3000:]
    if rc != 0:
        res["problems"].append("coq build failed: " + out[-1500:])
        return res
    # forced re-check of the property file itself, capturing Print Assumptions
    cmd = ["coqc", "-q", "-Q", "theories", "PyxisModel", "-Q", "Properties", "PyxisProps",
           "-o", os.path.join(scratch, pid + ".vo"), os.path.join("Properties", pid + ".v")]
    try:
        p = subprocess.run(cmd, cwd=P.COQ_DIR, stdout=subprocess.PIPE, stderr=subprocess.STDOUT,
                           timeout=900, text=True)
        if p.returncode < 0:
            # coqc was killed by a signal (another process's `pkill`, the OOM killer): not a verdict about the
            # proof -- run it once more; a second failure is reported
            res["log"] += "coqc killed by signal %d, retrying once\n" % -p.returncode
            p = subprocess.run(cmd, cwd=P.COQ_DIR, stdout=subprocess.PIPE, stderr=subprocess.STDOUT,
                               timeout=900, text=True)
    except subprocess.TimeoutExpired:
        res["problems"].append("coqc Properties/%s.v timed out" % pid)
        return res
    res["log"] += p.stdout[-3000:]
    if p.returncode != 0:
        res["problems"].append("Properties/%s.v does not compile: %s" % (pid, p.stdout[-1500:]))
        return res
    # Print Assumptions blocks: either "Closed under the global context" or "Axioms:" + list
    closed = p.stdout.count("Closed under the global context")
    axioms = re.findall(r"^Axioms:\n((?:.+\n?)+?)(?=\n|\Z)", p.stdout, re.M)
    n_print = len(re.findall(r"^Print Assumptions\s+([A-Za-z0-9_']+)", text, re.M))
    res["assumptions"] = {"closed": closed, "axiom_blocks": axioms, "printed": n_print}
    if axioms:
        res["problems"].append("theorems depend on axioms: %s" % axioms)
    n_thm = len(re.findall(r"^Theorem\s+([A-Za-z0-9_']+)", text, re.M))
    if closed + len(axioms) < n_print or n_print < n_thm:
        res["problems"].append("Print Assumptions missing for some theorem (%d printed, %d closed, %d theorems)"
                               % (n_print, closed, len(theorems)))
    if not res["problems"]:
        res["ok"] = True
        res["discharged"] = len(theorems)
    return res


def write_replay(pid, kind, name, payload):
    os.makedirs(REPLAYS, exist_ok=True)
    h = hashlib.sha256(json.dumps(payload, sort_keys=True, default=str).encode()).hexdigest()[:12]
    path = os.path.join(REPLAYS, "%s-%s.json" % (pid, h))
    doc = dict(property=pid, kind=kind, theorem_or_projection=name,
               replay_cmd="./check %s --replay %s" % (pid, os.path.relpath(path, VERIF)))
    doc.update(payload)
    with open(path, "w") as f:
        json.dump(doc, f, indent=1, default=str)
    return os.path.relpath(path, VERIF)


def main():
    ap = argparse.ArgumentParser()
    ap.add_argument("pid")
    ap.add_argument("--tier", default=os.environ.get("VERIF_TIER", "quick"), choices=["quick", "thorough"])
    ap.add_argument("--replay")
    ap.add_argument("--no-coq", action="store_true", help="(debugging only) skip the Coq step")
    args = ap.parse_args()
    pid = args.pid
    seed = int(os.environ.get("VERIF_SEED", "0"))
    t0 = time.time()
    os.makedirs(EVID, exist_ok=True)
    if pid not in props.PROPS:
        print("unknown property", pid)
        sys.exit(2)
    prop = props.PROPS[pid]
    violations = []     # (replay path, suffix)
    known_lines = []
    with P.Scratch() as scratch:
        # 1. Coq
        if args.no_coq:
            coq = dict(ok=True, obligations=1, discharged=1, theorems=[], assumptions={}, problems=[], log="skipped")
        else:
            coq = coq_step(pid, scratch)
        # 2. builds
        try:
            P.build_harness()
            P.build_model()
            build_problem = None
        except P.BuildError as e:
            build_problem = str(e)
        if build_problem:
            path = write_replay(pid, "tooling", "build", dict(error=build_problem))
            print("check %s: cannot build harness or model: %s" % (pid, build_problem[-2000:]))
            print("VIOLATION property=%s replay=%s no-failing-input-found" % (pid, path))
            write_evidence(pid, args.tier, seed, coq, None, time.time() - t0, 1, prop)
            sys.exit(1)
        # 3. cases
        run = props.run_property(pid, prop, args.tier, seed, scratch, replay=args.replay)
        # 4. classify
        findings = props.load_findings()
        if not args.replay:
            kl, regress, notes = props.run_findings(pid, scratch)
            known_lines.extend(kl)
            run["failures"].extend(regress)
            run.setdefault("notes", []).extend(notes)
        for fail in run["failures"]:
            kf = props.match_finding(findings, pid, fail)
            if kf is not None:
                known_lines.append("KNOWN-FINDING: property=%s %s [%s]" % (pid, kf["what_fails"], kf["id"]))
                continue
            path = write_replay(pid, "counterexample", fail.get("clause", "monitor"), fail)
            violations.append((path, ""))
        if not violations:
            # correspondence breaks and proof breaks without a failing input
            for br in run["breaks"]:
                path = write_replay(pid, "correspondence-only", "pi_%s:%s" % (pid, br.get("aspect")), br)
                violations.append((path, " no-failing-input-found"))
                break  # one line per run is enough; the replay lists the first, evidence the count
            if not coq["ok"]:
                path = write_replay(pid, "proof-obligation", ",".join(coq["theorems"]) or pid,
                                    dict(problems=coq["problems"], log=coq["log"][-3000:]))
                violations.append((path, " no-failing-input-found"))
        elif not coq["ok"]:
            pass  # a concrete failing input was found; it is the replay
        for line in sorted(set(known_lines)):
            print(line)
        for f in run.get("notes", []):
            print("note:", f)
        wall = time.time() - t0
        write_evidence(pid, args.tier, seed, coq, run, wall, len(violations), prop)
        print("check %s tier=%s seed=%d: %d cases, %d non-trivial, %d correspondence breaks, %d monitor failures "
              "(%d known), coq %s, %.1fs" % (
                  pid, args.tier, seed, run["evaluations"], run["distinct_nontrivial"], len(run["breaks"]),
                  len(run["failures"]), len(known_lines), "ok" if coq["ok"] else "BROKEN", wall))
        if violations:
            for path, suffix in violations[:5]:
                print("VIOLATION property=%s replay=%s%s" % (pid, path, suffix))
            sys.exit(1)
        sys.exit(0)


def write_evidence(pid, tier, seed, coq, run, wall, nviol, prop):
    cov = dict(
        obligations=max(coq["obligations"], 1) if coq["ok"] else coq["obligations"],
        discharged=coq["discharged"],
        checker_cmd="make -C coq (full .vo build, coq_makefile) && coqc -Q theories PyxisModel Properties/%s.v "
                    "(Print Assumptions under every theorem); ./check %s --tier %s" % (pid, pid, tier),
        trusted_base=props.TRUSTED_BASE + prop.get("trusted", []),
        theorems=coq["theorems"],
        assumptions=coq["assumptions"],
        coq_problems=coq["problems"],
    )
    if run:
        cov.update(dict(
            evaluations=run["evaluations"],
            distinct_nontrivial=run["distinct_nontrivial"],
            rule=prop.get("rule", ""),
            samples=run["samples"][:3],
            correspondence_breaks=len(run["breaks"]),
            monitor_failures=len(run["failures"]),
            distribution=run.get("distribution", {}),
            oracle=run.get("oracle", {}),
            fullfile_equal=run.get("fullfile_equal"),
            exhaustive=run.get("exhaustive", False),
        ))
        if run.get("bound"):
            cov["bound"] = run["bound"]
    else:
        cov.update(dict(evaluations=0, distinct_nontrivial=0, samples=[]))
    if not coq["ok"] or coq["obligations"] == 0:
        # the schema wants obligations >= 1 for a proof-level claim; a broken proof step is reported
        # through `violations`, the counts stay what was measured
        cov["obligations"] = max(coq["obligations"], 1)
        cov["discharged"] = max(coq["discharged"], 0)
        if cov["discharged"] == 0:
            cov.pop("discharged")
            cov.pop("obligations")
            cov.setdefault("evaluations", 1)
            cov["evaluations"] = max(cov["evaluations"], 1)
    doc = dict(property_id=pid, tier=tier, seed=seed, level="proof", coverage=cov,
               assumptions=prop.get("assumptions", []) + props.COMMON_ASSUMPTIONS,
               wall_s=round(wall, 2), violations=nviol)
    with open(os.path.join(EVID, pid + ".json"), "w") as f:
        json.dump(doc, f, indent=1, default=str)


if __name__ == "__main__":
    main()
