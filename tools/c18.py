"""C18 runner.
A. abstract modules over the full grammar -> concrete syntax with randomised legal formatting ->
   the REAL parser -> must equal the generated module (as S-expression).
B. type and attribute-list strings (valid and mutated) -> real parser and Coq parser (on the token
   stream of the real lexer) must agree on accept/reject and on the value.
C. texts that are not modules are rejected with a position inside the file."""
import collections
import json
import os
import random
import re
import subprocess

import sx
import gen
import engine
import props
import pyxlib as P

IDENTS = ["a", "b1", "foo", "Bar", "_x", "x_y", "T0", "Value", "self_", "typ", "r#type", "r#fn", "Éclair"]
TYPE_NAMES = ["u8", "u32", "i64", "f32", "bool", "void", "Foo", "Bar", "Shared<Foo>", "Map<K>", "T0",
              "Vec<Shared<Foo>>", "A<B<C<D>>>"]
ATTR_NAMES = ["size", "align", "address", "index", "singleton", "copyable", "packed", "base", "custom", "doc2"]


def q(s):
    return sx.quote(s)


def g_type(rng, depth=0):
    k = rng.random()
    if depth < 5 and k < 0.25:
        return ["cptr", g_type(rng, depth + 1)]
    if depth < 5 and k < 0.45:
        return ["mptr", g_type(rng, depth + 1)]
    if depth < 5 and k < 0.6:
        return ["array", g_type(rng, depth + 1), str(rng.choice([0, 1, 2, 16, 255, 4096, 2**32]))]
    if k < 0.7:
        return ["unknown", str(rng.choice([0, 1, 4, 12, 100]))]
    return ["tid", sx.Q(rng.choice(TYPE_NAMES))]


def g_expr(rng):
    k = rng.random()
    if k < 0.5:
        return ["int", str(rng.choice([0, 1, -1, 7, 255, -128, 4096, 2**31, -2**31, 2**63 - 1, -2**63, rng.randint(-10**6, 10**6)]))]
    if k < 0.8:
        return ["str", sx.Q(rng.choice(["", "x", "thiscall", "a b", 'q"uote', "back\\slash", "new\nline", "t\tab", "caf\xc3\xa9"]))]
    return ["id", sx.Q(rng.choice(IDENTS[:9]))]


def g_attrs(rng, docs=True, maxn=3):
    out = ["attrs"]
    for _ in range(rng.randint(0, maxn)):
        k = rng.random()
        name = sx.Q(rng.choice(ATTR_NAMES))
        if docs and k < 0.3:
            out.append(["assign", sx.Q("doc"), ["str", sx.Q(rng.choice([" a doc line", " two  spaces", "", " caf\xc3\xa9 <b>", " x"]))]])
        elif k < 0.5:
            out.append(["ident", name])
        elif k < 0.85:
            out.append(["fn", name] + [g_expr(rng) for _ in range(rng.randint(0, 3))])
        else:
            out.append(["assign", name, g_expr(rng)])
    return out


def g_func(rng):
    args = ["args"]
    if rng.random() < 0.6:
        args.append(rng.choice(["cself", "mself"]))
    for i in range(rng.randint(0, 3)):
        args.append(["named", sx.Q("p%d" % i), g_type(rng, 3)])
    ret = "none" if rng.random() < 0.5 else ["some", g_type(rng, 3)]
    return ["func", g_attrs(rng), rng.choice(["pub", "priv"]), sx.Q(rng.choice(IDENTS[:10]) + str(rng.randint(0, 9))), args, ret]


def g_module(rng):
    m = ["module", g_attrs(rng, maxn=2)]
    m.append(["uses"] + [["path"] + [sx.Q(rng.choice(["a", "b", "core", "Foo", "Map<K>"])) for _ in range(rng.randint(1, 3))]
                         for _ in range(rng.randint(0, 2))])
    m.append(["extern_types"] + [["etype", sx.Q(rng.choice(["Ext", "Shared<Foo>", "X1", "Vec<Shared<Foo>>"])), g_attrs(rng)] for _ in range(rng.randint(0, 2))])
    m.append(["extern_values"] + [["evalue", g_attrs(rng), rng.choice(["pub", "priv"]), sx.Q("g%d" % i), g_type(rng, 3)]
                                  for i in range(rng.randint(0, 2))])
    defs = ["defs"]
    for i in range(rng.randint(0, 3)):
        vis = rng.choice(["pub", "priv"])
        name = sx.Q("D%d" % i)
        if rng.random() < 0.65:
            stmts = []
            if rng.random() < 0.4:
                stmts.append(["vftable", g_attrs(rng, docs=False, maxn=1)] + [g_func(rng) for _ in range(rng.randint(0, 3))])
            for f in range(rng.randint(0, 4)):
                fname = sx.Q("_" if rng.random() < 0.15 else rng.choice(IDENTS[:10]) + str(f))
                stmts.append(["field", g_attrs(rng), rng.choice(["pub", "priv"]), fname, g_type(rng)])
            defs.append(["def", vis, name, ["type", g_attrs(rng)] + stmts])
        else:
            cases = [["case", g_attrs(rng, maxn=1), sx.Q("V%d" % c), "none" if rng.random() < 0.5 else ["some", g_expr(rng)]]
                     for c in range(rng.randint(0, 4))]
            defs.append(["def", vis, name, ["enum", g_type(rng, 4), g_attrs(rng)] + cases])
    m.append(defs)
    m.append(["impls"] + [["impl", sx.Q("D%d" % rng.randint(0, 3)), g_attrs(rng, maxn=1)] + [g_func(rng) for _ in range(rng.randint(0, 3))]
                          for _ in range(rng.randint(0, 2))])
    backs = ["backends"]
    for _ in range(rng.randint(0, 2)):
        k = rng.random()
        pro = ["some", sx.Q(rng.choice(["use x::y;", "fn p() {}", "a \"q\" b", "line1\nline2"]))]
        epi = ["some", sx.Q(rng.choice(["pub const E: u8 = 1;", "mod z {}"]))]
        name = sx.Q(rng.choice(["rust", "cpp"]))
        if k < 0.3:
            backs.append(["backend", name, pro, "none"])
        elif k < 0.6:
            backs.append(["backend", name, "none", epi])
        elif k < 0.9:
            backs.append(["backend", name, pro, epi])
        else:
            backs.append(["backend", name, "none", "none"])
    m.append(backs)
    return m


# ---- rendering ---------------------------------------------------------------------------------
def ws(rng):
    k = rng.random()
    if k < 0.6:
        return " "
    if k < 0.75:
        return "\n"
    if k < 0.85:
        return "  \t"
    if k < 0.93:
        return " /* c */ "
    return " // line comment\n"


def r_int(rng, v):
    v = int(v)
    if v < 0:
        return "-" + ("" if rng.random() < 0.8 else " ") + gen.int_lit(rng, -v, True)
    return gen.int_lit(rng, v, True)


def r_str(rng, s):
    raw = s.encode("latin-1").decode("utf-8", errors="replace") if isinstance(s, sx.Q) else s
    if rng.random() < 0.2 and '"#' not in raw and "\\" not in raw:
        return 'r#"%s"#' % raw
    out = raw.replace("\\", "\\\\").replace('"', '\\"')
    if rng.random() < 0.5:
        out = out.replace("\n", "\\n").replace("\t", "\\t")
    return '"%s"' % out


def qs(x):
    return x.encode("latin-1").decode("utf-8", errors="replace")


def r_type(rng, t):
    k = t[0]
    if k == "cptr":
        return "*" + ws(rng) * (rng.random() < 0.3) + "const " + r_type(rng, t[1])
    if k == "mptr":
        return "*mut " + r_type(rng, t[1])
    if k == "array":
        return "[%s;%s%s]" % (r_type(rng, t[1]), " " * rng.randint(0, 2), gen.int_lit(rng, int(t[2]), True))
    if k == "unknown":
        return "unknown%s<%s>" % (" " * rng.randint(0, 1), gen.int_lit(rng, int(t[1]), True))
    name = qs(t[1])
    if rng.random() < 0.3:
        name = name.replace("<", " < ").replace(">", " >")
    return name


def r_expr(rng, e):
    if e[0] == "int":
        return r_int(rng, e[1])
    if e[0] == "str":
        return r_str(rng, e[1])
    return qs(e[1])


def r_attrs(rng, attrs, inner=False, indent=""):
    parts = attrs[1:]
    out = ""
    i = 0
    while i < len(parts):
        a = parts[i]
        if a[0] == "assign" and qs(a[1]) == "doc" and a[2][0] == "str" and "\n" not in qs(a[2][1]) and rng.random() < 0.8:
            out += "%s//%s%s\n" % (indent, "!" if inner else "/", qs(a[2][1]))
            i += 1
            continue
        group = [a]
        while i + 1 < len(parts) and rng.random() < 0.3:
            i += 1
            group.append(parts[i])
        rendered = []
        for g in group:
            if g[0] == "ident":
                rendered.append(qs(g[1]))
            elif g[0] == "fn":
                rendered.append("%s(%s%s)" % (qs(g[1]), ", ".join(r_expr(rng, x) for x in g[2:]), "," if len(g) > 2 and rng.random() < 0.2 else ""))
            else:
                rendered.append("%s = %s" % (qs(g[1]), r_expr(rng, g[2])))
        out += "%s#%s[%s%s]%s" % (indent, "!" if inner else "", ", ".join(rendered), "," if rng.random() < 0.15 else "", ws(rng))
        i += 1
    return out


def r_func(rng, f):
    _, attrs, vis, name, args, ret = f
    a = []
    for x in args[1:]:
        if x == "cself":
            a.append("&self")
        elif x == "mself":
            a.append("&mut self" if rng.random() < 0.8 else "& mut  self")
        else:
            a.append("%s: %s" % (qs(x[1]), r_type(rng, x[2])))
    return "%s%sfn %s(%s%s)%s" % (r_attrs(rng, attrs, indent="    "), "pub " if vis == "pub" else "", qs(name), ", ".join(a),
                                   "," if a and rng.random() < 0.2 else "", "" if ret == "none" else " -> " + r_type(rng, ret[1]))


def render_module(rng, m):
    _, attrs, uses, etypes, evalues, defs, impls, backs = m
    head = r_attrs(rng, attrs, inner=True)
    stmts = []
    for u in uses[1:]:
        stmts.append(("use", "use %s;" % "::".join(qs(x) for x in u[1:])))
    for e in etypes[1:]:
        stmts.append(("etype", "%sextern type %s;" % (r_attrs(rng, e[2]), qs(e[1]))))
    for e in evalues[1:]:
        stmts.append(("evalue", "%s%sextern %s: %s;" % (r_attrs(rng, e[1]), "pub " if e[2] == "pub" else "", qs(e[3]), r_type(rng, e[4]))))
    for d in defs[1:]:
        _, vis, name, inner = d
        if inner[0] == "type":
            body = []
            for st in inner[2:]:
                if st[0] == "vftable":
                    fs = ";\n".join(r_func(rng, f) for f in st[2:])
                    body.append("%svftable {\n%s%s\n    }" % (r_attrs(rng, st[1], indent="    "), fs, ";" if st[2:] and rng.random() < 0.5 else ""))
                else:
                    body.append("%s    %s%s: %s" % (r_attrs(rng, st[1], indent="    "), "pub " if st[2] == "pub" else "", qs(st[3]), r_type(rng, st[4])))
            if not body and rng.random() < 0.5:
                text = "%s%stype %s;" % (r_attrs(rng, inner[1]), "pub " if vis == "pub" else "", qs(name))
            else:
                text = "%s%stype %s {\n%s%s\n}" % (r_attrs(rng, inner[1]), "pub " if vis == "pub" else "", qs(name), ",\n".join(body),
                                                   "," if body and rng.random() < 0.4 else "")
        else:
            cs = ["%s    %s%s" % (r_attrs(rng, c[1], indent="    "), qs(c[2]), "" if c[3] == "none" else " = " + r_expr(rng, c[3][1])) for c in inner[3:]]
            text = "%s%senum %s: %s {\n%s%s\n}" % (r_attrs(rng, inner[2]), "pub " if vis == "pub" else "", qs(name), r_type(rng, inner[1]),
                                                  ",\n".join(cs), "," if cs and rng.random() < 0.4 else "")
        stmts.append(("def", text))
    for i in impls[1:]:
        fs = ";\n".join(r_func(rng, f) for f in i[3:])
        stmts.append(("impl", "%simpl %s {\n%s%s\n}" % (r_attrs(rng, i[2]), qs(i[1]), fs, ";" if i[3:] and rng.random() < 0.5 else "")))
    for b in backs[1:]:
        name, pro, epi = qs(b[1]), b[2], b[3]
        pad = lambda s_: rng.choice(["", " ", "\n  "]) + s_ + rng.choice(["", " ", "\n"])
        if pro != "none" and epi == "none" and rng.random() < 0.5:
            text = "backend %s prologue %s;" % (name, r_str(rng, sx.Q(pad(pro[1]))))
        elif epi != "none" and pro == "none" and rng.random() < 0.5:
            text = "backend %s epilogue %s;" % (name, r_str(rng, sx.Q(pad(epi[1]))))
        else:
            inner = []
            split_ = False
            if pro != "none" and "\n" in sx.qtext(pro[1]) and rng.random() < 0.7:
                split_ = True
                # a repeated section of one braced block continues the text on a new line
                for part in sx.qtext(pro[1]).split("\n"):
                    inner.append("prologue %s;" % r_str(rng, sx.Q(pad(sx.Q(part)))))
            elif pro != "none":
                inner.append("prologue %s;" % r_str(rng, sx.Q(pad(pro[1]))))
            if epi != "none":
                inner.append("epilogue %s;" % r_str(rng, sx.Q(pad(epi[1]))))
            if rng.random() < 0.5 and not split_:
                inner.reverse()
            text = "backend %s { %s }" % (name, " ".join(inner))
        stmts.append(("backend", text))
    # any interleaving that keeps each class's order
    classes = collections.defaultdict(list)
    for k, t in stmts:
        classes[k].append(t)
    order = [k for k, _ in stmts]
    rng.shuffle(order)
    out = []
    for k in order:
        out.append(classes[k].pop(0))
    return head + ws(rng).join(out) + ws(rng)


def normalise_backends(m):
    """text is trimmed by the parser"""
    m = list(m)
    backs = ["backends"]
    for b in m[7][1:]:
        pro = b[2] if b[2] == "none" else ["some", sx.Q(b[2][1].strip())]
        epi = b[3] if b[3] == "none" else ["some", sx.Q(b[3][1].strip())]
        backs.append(["backend", b[1], pro, epi])
    m[7] = backs
    return m


def type_string(rng):
    t = g_type(rng)
    s = r_type(rng, t)
    if rng.random() < 0.35:
        toks = re.findall(r"\w+|\S", s)
        if toks:
            i = rng.randrange(len(toks))
            k = rng.random()
            if k < 0.3:
                del toks[i]
            elif k < 0.6:
                toks.insert(i, rng.choice(["*", "const", "mut", "[", "]", ";", "<", ">", "unknown", "3", "-1", "u8", ",", "volatile"]))
            else:
                toks[i] = rng.choice(["*", "const", "mut", ";", "<", ">", "unknown", "7", "u8", "x y"])
        s = " ".join(toks)
    return s


def attrs_string(rng):
    a = g_attrs(rng, maxn=4)
    s = r_attrs(rng, a)
    if rng.random() < 0.35:
        toks = re.findall(r'"[^"]*"|\w+|\S', s)
        if toks:
            i = rng.randrange(len(toks))
            k = rng.random()
            if k < 0.3:
                del toks[i]
            elif k < 0.6:
                toks.insert(i, rng.choice(["#", "[", "]", "(", ")", ",", "=", "x", "5", '"s"', "!", ";"]))
            else:
                toks[i] = rng.choice(["#", ",", "=", "x", "5", '"s"', "(", ")"])
        s = " ".join(toks)
    return s


def mutate_module_text(rng, text):
    """token-level damage to a module text (delete / insert / replace / swap one to three tokens)"""
    toks = re.findall(r'"(?:[^"\\]|\\.)*"|///[^\n]*|//[^\n]*|\w+|::|->|\S', text)
    if not toks:
        return text
    for _ in range(rng.randint(1, 3)):
        i = rng.randrange(len(toks))
        k = rng.random()
        pool = ["pub", "fn", "type", "enum", "impl", "extern", "use", "backend", "vftable", "prologue", "epilogue", "self", "mut", "const",
                "{", "}", "(", ")", "[", "]", ",", ";", ":", "::", ": :", "->", "- >", "=", "#", "!", "*", "&", "<", ">", "_", "x", "T0",
                "7", "-1", "0x10", '"s"', "1.5", "'c'", "unknown", "u32"]
        if k < 0.3:
            del toks[i]
            if not toks:
                return ""
        elif k < 0.6:
            toks.insert(i, rng.choice(pool))
        elif k < 0.9:
            toks[i] = rng.choice(pool)
        elif len(toks) > 1:
            j = rng.randrange(len(toks))
            toks[i], toks[j] = toks[j], toks[i]
    out = []
    for t in toks:
        out.append(t)
        out.append("\n" if t.startswith("//") else " ")
    return "".join(out)


INT_SUFFIXES = ["u8", "u16", "u32", "u64", "u128", "usize", "i8", "i16", "i32", "i64", "i128", "isize"]


def literal_text(rng):
    """an integer literal spelling: mostly well formed (any base, underscores, suffix, either hex case, boundary
    values of isize / usize), sometimes damaged"""
    k = rng.random()
    if k < 0.25:
        n = rng.choice([0, 1, 7, 8, 9, 10, 15, 16, 255, 256, 2**31 - 1, 2**31, 2**32 - 1, 2**32, 2**63 - 1, 2**63, 2**63 + 1,
                        2**64 - 1, 2**64, 2**64 + 1, 10**19, 10**25])
    elif k < 0.6:
        n = rng.randint(0, 300)
    else:
        n = rng.randint(0, 2**rng.choice([8, 16, 32, 63, 64, 65]))
    base = rng.choice([2, 8, 10, 10, 16, 16])
    digs = {2: bin(n)[2:], 8: oct(n)[2:], 10: str(n), 16: hex(n)[2:]}[base]
    if base == 16 and rng.random() < 0.5:
        digs = digs.upper()
    if rng.random() < 0.4:
        out = ""
        for ch in digs:
            out += ch + ("_" * rng.randint(1, 2) if rng.random() < 0.25 else "")
        digs = out
    pre = {2: "0b", 8: "0o", 10: "", 16: "0x"}[base]
    if pre and rng.random() < 0.15:
        pre += "_"
    text = pre + digs
    if rng.random() < 0.2:
        text += rng.choice(INT_SUFFIXES)
    elif rng.random() < 0.08:
        text += rng.choice(["e", "e3", "E2", "f32", "x", "_", "u", "usize_", "a", "b1", "o7", "X1", ".0", ".", "e+1"])
    if rng.random() < 0.15:
        # damage: one character replaced / inserted / removed
        alphabet = "0123456789abcdefABCDEFxob_.eE+-u"
        i = rng.randrange(len(text) + 1)
        j = rng.random()
        if j < 0.4 and i < len(text):
            text = text[:i] + rng.choice(alphabet) + text[i + 1:]
        elif j < 0.8:
            text = text[:i] + rng.choice(alphabet) + text[i:]
        elif len(text) > 1 and i < len(text):
            text = text[:i] + text[i + 1:]
    return text


def runner(pid, prop, tier, seed, scratch, replay=None):
    rng = random.Random(seed)
    nmods, nsyn = (500, 3000) if tier == "quick" else (20000, 100000)
    out = dict(evaluations=0, failures=[], breaks=[], samples=[], notes=[])
    dist = collections.Counter()
    # ---- A: full modules through the real parser
    cases, expected = [], []
    if replay:
        doc = json.load(open(os.path.join(P.VERIF, replay) if not os.path.isabs(replay) else replay))
        cases.append(dict(id="replay", ptr=4, schedule=[], files={"m.pyxis": doc["text"]}, parse_only=True))
        expected.append(sx.parse(doc["expected"])[0] if doc.get("expected") else None)
        nsyn = 0
    else:
        for i in range(nmods):
            m = g_module(rng)
            text = render_module(rng, m)
            # the parser alone: the harness does not run the build on these (an index of 2^63 - 1 in a vftable whose
            # signatures happen to resolve would ask for a table of that many slots)
            cases.append(dict(id="c18-%d" % i, ptr=4, schedule=[], files={"m.pyxis": text}, parse_only=True))
            expected.append(normalise_backends(m))
    hres = P.run_harness(cases, scratch)
    seen = set()
    nontrivial = 0
    for c, exp in zip(cases, expected):
        asts = sx.field(hres[c["id"]], "asts") or []
        text = c["files"]["m.pyxis"]
        if not asts:
            out["failures"].append(dict(clause="C18.no_answer", detail=str(sx.field(hres[c["id"]], "verdict")), text=text, expected=sx.show(exp) if exp is not None else None))
            continue
        a = asts[0]
        if a[0] != "ast":
            dist["A:rejected"] += 1
            out["failures"].append(dict(clause="C18.valid_module_rejected", detail=sx.show(a)[:300], text=text, expected=sx.show(exp)))
            continue
        dist["A:parsed"] += 1
        if exp is not None and a[3] != exp:
            out["failures"].append(dict(clause="C18.roundtrip", detail=P.first_diff(a[3], exp) or "differs", text=text, expected=sx.show(exp)))
        h = props.sha_files(c["files"])
        if h not in seen and exp is not None and len(sx.show(exp)) > 200:
            seen.add(h)
            nontrivial += 1
        if replay:
            print("replay:", "parsed (no expectation recorded)" if exp is None else "equal" if a[3] == exp else P.first_diff(a[3], exp))
    out["evaluations"] += len(cases)
    # ---- B: Coq parser vs real parser on types and attribute lists
    items = [("type", type_string(rng)) for _ in range(nsyn // 2)] + [("attrs", attrs_string(rng)) for _ in range(nsyn // 2)]
    # ---- C: the Coq *module* parser (SyntaxItems.v) vs the real parser on whole module texts: the generated
    # modules in their randomised concrete syntax, and token-damaged versions of them
    if not replay:
        nmodsyn = 400 if tier == "quick" else 8000
        texts = [c["files"]["m.pyxis"] for c in cases[:nmodsyn]]
        for t in texts:
            items.append(("module", t))
            items.append(("module", mutate_module_text(rng, t)))
    # ---- D: integer literal spellings: the Coq lexical model (IntLit.v: what proc_macro2 + syn read, then
    # base10_parse::<isize> / ::<usize>) vs the real parser, in an isize position (attribute argument) and in a
    # usize position (unknown<N>)
    lit_items = []
    if not replay:
        for _ in range(1200 if tier == "quick" else 40000):
            t = literal_text(rng)
            if not t or not t[0].isdigit() or any(c.isspace() for c in t):
                continue
            neg = rng.random() < 0.25
            if rng.random() < 0.5:
                lit_items.append(("isize", neg, t))
                items.append(("attrs", "#[x(%s%s)]" % ("-" if neg else "", t)))
            else:
                lit_items.append(("usize", neg, t))
                items.append(("type", "unknown<%s%s>" % ("-" if neg else "", t)))
    nlit = len(lit_items)
    if items:
        inp = os.path.join(scratch, "syn.in")
        outp = os.path.join(scratch, "syn.out")
        with open(inp, "w") as f:
            f.write("\n".join("(%s %s)" % (k, sx.quote(s)) for k, s in items))
        subprocess.run([P.HARNESS_BIN, "syntax", inp, outp], check=True, timeout=600)
        reals = [sx.parse(l)[0] for l in open(outp, errors="replace") if l.strip()]
        # part D first: the literal cases are the last nlit items
        if nlit:
            lit_reals = reals[len(items) - nlit:]
            lres = P.run_model(["(lit %s %d %s)" % (k, 1 if neg else 0, sx.quote(t)) for k, neg, t in lit_items], scratch)
            for (k, neg, t), r, mr in zip(lit_items, lit_reals, lres):
                real = r[1]
                rv = None
                if isinstance(real, list) and real[0] == "ok":
                    body = real[1]
                    try:
                        rv = int(body[1][2][1]) if k == "isize" else int(body[1])
                    except Exception:  # noqa
                        rv = "unreadable:" + sx.show(body)[:80]
                mv = int(mr[1]) if isinstance(mr, list) and len(mr) > 1 and mr[0] == "ok" else None
                dist["D:%s:%s" % (k, "accept" if rv is not None else "reject")] += 1
                if real == "panic":
                    out["failures"].append(dict(clause="C18.parser_panic", detail="literal `%s`" % t))
                elif rv != mv:
                    out["breaks"].append(dict(aspect="literal_model", detail="literal `%s%s` read as %s: real parser %s, IntLit.v %s" % (
                        "-" if neg else "", t, k, rv, mv)))
            items = items[:len(items) - nlit]
            reals = reals[:len(items)]
            out["evaluations"] += nlit
        mcases = []
        idx = []
        for n_, ((k, s), r) in enumerate(zip(items, reals)):
            toks = r[2]
            if toks == "lexerror":
                dist["B:lexerror"] += 1
                continue
            if k == "module":
                real = r[1]
                real_ast = sx.show(real[1]) if isinstance(real, list) and real[0] == "ok" else "none"
                mcases.append("(c18m (toks %s) %s)" % (" ".join(sx.show(t) for t in toks[1:]), real_ast))
            else:
                mcases.append("(c18 %s %s)" % (k, " ".join(sx.show(t) for t in toks[1:])))
            idx.append(n_)
        mres = P.run_model(mcases, scratch) if mcases else []
        for n_, mr in zip(idx, mres):
            k, s = items[n_]
            real = reals[n_][1]
            model = mr[0] if mr else "missing"
            ok_r = isinstance(real, list) and real[0] == "ok"
            ok_m = isinstance(model, list) and model[0] == "ok"
            dist["B:%s:%s" % (k, "accept" if ok_r else "reject")] += 1
            if real == "panic":
                out["failures"].append(dict(clause="C18.parser_panic", detail=s))
            elif k == "module":
                if ok_r != ok_m or (ok_r and model[1] != "same"):
                    out["breaks"].append(dict(aspect="parser_model", detail="module `%s`: real parser %s, Coq module parser %s" % (
                        s[:600], "accepts" if ok_r else "rejects", sx.show(model)[:100])))
            elif ok_r != ok_m or (ok_r and real[1] != model[1]):
                out["breaks"].append(dict(aspect="parser_model", detail="%s `%s`: real parser %s, Coq parser %s" % (k, s, sx.show(real)[:200], sx.show(model)[:200])))
        out["evaluations"] += len(items)
    out["distinct_nontrivial"] = nontrivial
    out["distribution"] = dict(dist)
    out["samples"] = [dict(text=c["files"]["m.pyxis"]) for c in cases[:2]] + [dict(kind=k, text=s) for k, s in items[:3]]
    return out
