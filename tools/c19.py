"""C19 runner: pairs of accepted input sets that differ only in definitions unreachable from the
observed module; the observed module's output file must be byte-identical."""
import collections
import json
import os
import random
import re

import sx
import gen
import engine
import props
import pyxlib as P

PROFILE = dict(modules=(2, 4), p_nested_mod=0.3, types=(1, 3), enums=(0, 2), externs=(0, 1), p_user_field=0.5, p_base=0.3,
               p_vftable=0.3, p_impl=0.4, extern_values=(0, 1), p_backend=0.2, miss=0.0)


def uses_of(text):
    return [u.split("::") for u in re.findall(r"^use\s+([\w:]+);", text, re.M)]


def closure(files, start):
    """modules (as tuples) reachable from `start` through use lines (module path or parent of a type path)"""
    mods = {tuple(f[:-6].split("/")) for f in files}
    seen = {start}
    todo = [start]
    while todo:
        m = todo.pop()
        for u in uses_of(files["/".join(m) + ".pyxis"]):
            for cand in (tuple(u), tuple(u[:-1])):
                if cand in mods and cand not in seen:
                    seen.add(cand)
                    todo.append(cand)
    return seen


def dependent_text(rng, obs, files, exp=None, ptr=4):
    """definitions that *use* the observed module (a reverse dependency: the observed module still
    neither imports nor references them): derived types with their own vftable, by-value and pointer
    fields, functions naming its types, a type of the same name in another scope"""
    text = files["/".join(obs) + ".pyxis"]
    names = re.findall(r"^\s*(?:pub\s+)?type\s+(\w+)\s*\{", text, re.M)
    enums = re.findall(r"^\s*(?:pub\s+)?enum\s+(\w+)\s*:", text, re.M)
    if not names and not enums:
        return None
    n = rng.randint(0, 99)
    out = []
    uses = set()
    kinds = rng.sample(["derived_vft", "derived", "fields", "fns", "same_name", "enum_field"], rng.randint(1, 3))
    for kind in kinds:
        if kind in ("derived_vft", "derived", "fields", "fns") and not names:
            continue
        t = rng.choice(names) if names else None
        info = (exp or {}).get("types", {}).get("::".join(list(obs) + [t])) if t else None
        if kind == "derived_vft" and info and (info.get("has_vftable") or info["align"] > ptr or info["size"] % ptr):
            kind = "derived"
        if kind == "derived" and any("ZzPlain" in o for o in out):
            continue
        if kind == "derived_vft":
            uses.add(t)
            out.append("pub type ZzDer%d {\n    vftable {\n        pub fn zz_f%d(&self, a: u32) -> *const %s;\n    },\n    #[base]\n    pub base: %s,\n    pub extra: *mut %s,\n}" % (n, n, t, t, t))
        elif kind == "derived":
            uses.add(t)
            out.append("pub type ZzPlain%d {\n    #[base]\n    pub base: %s,\n}\npub type ZzPtrs%d {\n    pub tail: [*const %s; 2],\n}" % (n, t, n, t))
        elif kind == "fields":
            uses.add(t)
            out.append(("#[align(%d)]\n" % info["align"] if info else "") + "pub type ZzHolder%d {\n    pub v: %s,\n    pub arr: [%s; %d],\n}\npub type ZzHolderP%d {\n    pub p: *mut %s,\n}" % (n, t, t, rng.randint(0, 3), n, t))
        elif kind == "fns":
            uses.add(t)
            out.append("pub type ZzFn%d {\n    pub x: u32,\n}\nimpl ZzFn%d {\n    #[address(0x%x)]\n    pub fn zz_get%d(&self, a: *const %s) -> *mut %s;\n}" % (n, n, rng.randint(0x1000, 0xffffff), n, t, t))
        elif kind == "same_name":
            # the same name in another scope must not capture or disturb the observed module's lookups
            t2 = rng.choice(names + enums)
            if t2 in uses:
                continue
            out.append("pub type %s {\n    pub zz_only_here: [u64; %d],\n}" % (t2, rng.randint(1, 5)))
            uses.discard(t2)
            names = [x for x in names if x != t2]
        elif kind == "enum_field" and enums:
            e = rng.choice(enums)
            uses.add(e)
            out.append("pub type ZzEnumHolder%d {\n    pub e: %s,\n}\npub type ZzEnumPtr%d {\n    pub pe: *const %s,\n}" % (n, e, n, e))
    if not out:
        return None
    return "".join("use %s::%s;\n" % ("::".join(obs), u) for u in sorted(uses)) + "\n" + "\n\n".join(out) + "\n"


KINDS = ["ancestor", "namesake", "type_import_parent", "sibling", "ancestor", "child", "namesake", "type_import_parent", "toplevel"]
PROBE_COUNTER = [0]


def capture_probe(rng):
    """a hand-shaped pair: the observed module gets a name through a MODULE import; a module that is not in
    its scope (an enclosing module, a sibling, a nested child, an unrelated top-level module) starts to
    define a type of the same name.  Returns (files, changed files, observed module, description)."""
    k1, k2 = 4 * rng.randint(1, 6), 4 * rng.randint(7, 12)
    name = rng.choice(["Vec3", "Node", "Handle"])
    lib = rng.choice([["lib"], ["core", "math"]])
    obs = rng.choice([["game", "entity"], ["game", "world", "actor"], ["app"]])
    where = KINDS[PROBE_COUNTER[0] % len(KINDS)]        # every kind in turn, so that each is exercised in every run
    PROBE_COUNTER[0] += 1
    if where == "ancestor" and len(obs) < 2:
        where = "toplevel"
    # namesake: a module in another directory whose file has the same name as the observed module's; it looks the
    # same short name up itself (and binds it to its own definition), before or after the observed module in path order
    other = {"ancestor": obs[:rng.randint(1, len(obs) - 1)] if len(obs) > 1 else ["zz"],
             "sibling": obs[:-1] + ["zz_sibling"], "child": obs + ["zz_child"], "toplevel": ["zz_top"],
             "namesake": [rng.choice(["aa_dir", "zz_dir"]), obs[-1]],
             # a module from which the observed one imports ONE TYPE by name (`use render::Texture;`): that import brings
             # in that type only, so another definition added to `render` is none of the observed module's business
             "type_import_parent": [rng.choice(["aa_render", "zz_render"])]}[where]
    files = {"/".join(lib) + ".pyxis": "pub type %s { pub a: [u8; %d] }\n" % (name, k1),
             "/".join(obs) + ".pyxis": "use %s;\npub type Holder {\n    pub v: %s,\n    pub p: *const %s,\n}\n" % ("::".join(lib), name, name)}
    if where == "type_import_parent":
        files["/".join(other) + ".pyxis"] = "pub type ZzTexture { pub a: u32 }\n"
        o_ = "/".join(obs) + ".pyxis"
        first = rng.random() < 0.7
        imp = "use %s::ZzTexture;\n" % "::".join(other)
        files[o_] = (imp + files[o_]) if first else files[o_].replace("\n", "\n" + imp, 1)
        files[o_] += "pub type ZzUsesTexture { pub t: *const ZzTexture }\n"
    elif rng.random() < 0.5:
        files["/".join(other) + ".pyxis"] = "pub type ZzOther { pub a: u32 }\n"
    new = dict(files)
    if where == "child" and rng.random() < 0.7:
        # the nested child's type owns a vftable: its generated <T>Vftable struct belongs to the child's file only
        new["/".join(other) + ".pyxis"] = files.get("/".join(other) + ".pyxis", "") + \
            "pub type %s {\n    vftable {\n        pub fn zz_v(&self) -> u32;\n    },\n    pub zz: [*const u8; %d]\n}\n" % (name, rng.randint(1, 4))
    else:
        new["/".join(other) + ".pyxis"] = files.get("/".join(other) + ".pyxis", "") + "pub type %s { pub zz: [u8; %d] }\n" % (name, k2)
    if where == "namesake":
        new["/".join(other) + ".pyxis"] += "pub type ZzUser { pub h: %s, pub q: *mut %s }\n#[address(0x4000)]\npub extern zz_g: %s;\n" % (name, name, name)
        if rng.random() < 0.5:
            # the observed module uses the name in an extern value too (resolved after all types)
            files["/".join(obs) + ".pyxis"] += "#[address(0x5000)]\npub extern g_obs: %s;\n" % name
            new["/".join(obs) + ".pyxis"] = files["/".join(obs) + ".pyxis"]
    return files, new, tuple(obs), "capture probe: %s starts to define %s (%s of the observed module, not in its scope)" % ("::".join(other), name, where)


def unrelated_change(rng, files, dep, obs=None, exp=None, ptr=4):
    """returns (new files, description) or None"""
    mods = [tuple(f[:-6].split("/")) for f in files]
    others = [m for m in mods if m not in dep]
    new = dict(files)
    k = rng.random()
    if obs is not None and rng.random() < 0.35:
        txt = dependent_text(rng, obs, files, exp, ptr)
        if txt is not None:
            name = "zz_dep%d" % rng.randint(0, 99)
            new[name + ".pyxis"] = txt
            return new, "dependent module %s added (it imports the observed module)" % name
    if k < 0.4 or not others:
        # a brand-new module nobody imports
        name = "zz_extra%d" % rng.randint(0, 99)
        extra, _ = gen.generate(rng.randrange(10**9), 4, dict(modules=(1, 1), types=(1, 3), miss=0.0, p_backend=0.0, extern_values=(0, 0)))
        new[name + ".pyxis"] = list(extra.values())[0].replace("mod1", name)
        # the generated text refers to its own module path only through `use`, which it does not need
        new[name + ".pyxis"] = re.sub(r"^use .*$", "", new[name + ".pyxis"], flags=re.M)
        return new, "added module " + name
    anc = [m_ for m_ in others if obs is not None and len(m_) < len(obs) and tuple(obs[:len(m_)]) == m_]
    if obs is not None and rng.random() < (0.7 if anc else 0.25):
        # a type with the SAME NAME as one the observed module refers to, added to a module outside its
        # closure (preferably an enclosing module, which is not in scope either); names that reach the
        # observed module through a module import (no `use ..::Name;` line) are preferred
        otext = files["/".join(obs) + ".pyxis"]
        local = set(re.findall(r"\b(?:type|enum)\s+(\w+)", otext))
        used = sorted(set(re.findall(r"\b([TEX]\d+)\b", otext)) - local)
        via_mod = [n_ for n_ in used if not re.search(r"^use\s+[\w:]*::%s;" % n_, otext, re.M)]
        if via_mod and rng.random() < 0.8:
            used = via_mod
        if used and (anc or others):
            m = rng.choice(anc) if anc and rng.random() < 0.7 else rng.choice(others)
            f = "/".join(m) + ".pyxis"
            name = rng.choice(used)
            if not re.search(r"\b(type|enum)\s+%s\b" % name, files[f]):
                new[f] = files[f] + "\npub type %s { pub zz_same_name: [u8; %d] }\n" % (name, 4 * rng.randint(1, 9))
                return new, "same-named type %s added to %s (outside the closure)" % (name, "::".join(m))
    m = rng.choice(others)
    f = "/".join(m) + ".pyxis"
    if k < 0.6:
        # removable only if nobody imports it
        if any(tuple(u) == m or tuple(u[:-1]) == m for t in files.values() for u in uses_of(t)):
            return None
        del new[f]
        return new, "removed module " + "::".join(m)
    if k < 0.8:
        new[f] = files[f] + "\npub type ZzAdded%d { pub a: u32, pub b: [u8; %d] }\n" % (rng.randint(0, 99), 4 * rng.randint(1, 9))
        return new, "added a type to " + "::".join(m)
    # change sizes inside an unrelated module: append padding to its first type with a body
    t = files[f]
    mm = re.search(r"(\n\s*)(\}\n)", t)
    if not mm or "#[size" in t or "#[packed" in t:
        new[f] = t + "\n/// changed\npub enum ZzE%d: u8 { A = %d }\n" % (rng.randint(0, 99), rng.randint(0, 200))
        return new, "added an enum to " + "::".join(m)
    new[f] = t + "\n#[singleton(0x%x)]\npub type ZzS%d { pub p: *const u8 }\n" % (rng.randint(1, 2**20), rng.randint(0, 99))
    return new, "added a singleton type to " + "::".join(m)


def runner(pid, prop, tier, seed, scratch, replay=None):
    rng = random.Random(seed)
    PROBE_COUNTER[0] = seed
    npairs = 250 if tier == "quick" else 5000
    pairs = []
    cases = []
    if replay:
        doc = json.load(open(os.path.join(P.VERIF, replay) if not os.path.isabs(replay) else replay))
        cases = [dict(id="replay-a", ptr=doc["ptr"], schedule=[], files=doc["original"]),
                 dict(id="replay-b", ptr=doc["ptr"], schedule=[], files=doc["changed"])]
        pairs.append((doc["observed"], doc.get("change"), True))
    else:
        i = 0
        while len(pairs) < npairs and i < npairs * 6:
            ptr = 4 if i % 2 == 0 else 8
            if rng.random() < 0.2:
                i += 1
                files, newf, obs, what = capture_probe(rng)
                cases.append(dict(id="c19-%d-a" % len(pairs), ptr=ptr, schedule=[], files=files))
                cases.append(dict(id="c19-%d-b" % len(pairs), ptr=ptr, schedule=[], files=newf))
                pairs.append(("/".join(obs) + ".rs", what, True))
                continue
            files, exp = gen.generate(seed * 1000003 + i, ptr, PROFILE)
            i += 1
            mods = sorted(tuple(f[:-6].split("/")) for f in files)
            if len(mods) < 2:
                continue
            obs = rng.choice(mods)
            dep = closure(files, obs)
            related = rng.random() < 0.1
            if related:
                # sanity: a change *inside* the closure must be able to change the file
                f = "/".join(obs) + ".pyxis"
                new = dict(files)
                new[f] = files[f] + "\npub type ZzRel { pub a: u8 }\n"
                ch = (new, "RELATED: added a type to the observed module")
            else:
                ch = unrelated_change(rng, files, dep, obs, exp, ptr)
            if ch is None:
                continue
            new, what = ch
            cases.append(dict(id="c19-%d-a" % len(pairs), ptr=ptr, schedule=[], files=files))
            cases.append(dict(id="c19-%d-b" % len(pairs), ptr=ptr, schedule=[], files=new))
            pairs.append(("/".join(obs) + ".rs", what, not related))
    out = dict(evaluations=len(pairs), failures=[], breaks=[], samples=[], notes=[])
    dist = collections.Counter()
    nontrivial = 0
    related_detected = related_total = 0
    sample_cases = [cases[2 * k] for k in range(min(2, len(pairs)))]
    BATCH = 400      # pairs per engine run: keeps memory bounded (a result holds the whole dump)
    for b0 in range(0, len(pairs), BATCH):
        results = engine.run(cases[2 * b0:2 * (b0 + BATCH)], scratch)
        for k in range(b0, min(b0 + BATCH, len(pairs))):
            obs, what, unrelated = pairs[k]
            ra, rb = results[2 * (k - b0)], results[2 * (k - b0) + 1]
            for r in (ra, rb):
                for asp, det in r.diffs:
                    if asp in ("verdict", "fileset"):
                        out["breaks"].append(dict(aspect=asp, detail=det, case=props.summarise_case(r.case)))
            dist["%s/%s" % (ra.hv[0], rb.hv[0])] += 1
            if ra.hv[0] != "ok" or rb.hv[0] != "ok":
                continue
            ha, hb = P.file_hashes(ra.h).get(obs), P.file_hashes(rb.h).get(obs)
            if unrelated:
                nontrivial += 1
                dist["unrelated:" + what.split(" ")[0]] += 1
                if ha != hb:
                    out["failures"].append(dict(clause="C19.unrelated_change_visible", observed=obs, change=what, ptr=ra.case["ptr"],
                                                detail="%s changed although the change (%s) is outside its import closure" % (obs, what),
                                                original=ra.case["files"], changed=rb.case["files"]))
            else:
                related_total += 1
                related_detected += ha != hb
            if replay:
                print("replay: %s hashes %s vs %s" % (obs, ha, hb))
        del results
    out["distinct_nontrivial"] = nontrivial
    out["distribution"] = dict(dist)
    out["distribution"]["related_changes_that_changed_the_file"] = "%d/%d" % (related_detected, related_total)
    if related_total and not related_detected:
        out["notes"].append("sanity: no related change altered the observed file -- the comparison may be blind")
    out["samples"] = [dict(observed=pairs[k][0], change=pairs[k][1], original=sample_cases[k]["files"]) for k in range(min(2, len(pairs)))]
    return out
