"""Grammar-directed generator of .pyxis inputs.

Inputs are built from a consistent layout first (sizes and offsets are chosen, then it is decided
which of them to state explicitly), so most of them are accepted; a `miss` probability injects
one near-miss violation.  Every random choice comes from the one `random.Random` passed in.

The generator also returns what it intended (`expect`): for every type the intended offset of every
named field, size and alignment; for vftables the intended slot of every function; etc.  Monitors
compare the implementation's output with these intentions (independently of the Coq model)."""
import random
import re

PRIMS = {
    "bool": (1, 1), "u8": (1, 1), "u16": (2, 2), "u32": (4, 4), "u64": (8, 8), "u128": (16, 16),
    "i8": (1, 1), "i16": (2, 2), "i32": (4, 4), "i64": (8, 8), "i128": (16, 16),
    "f32": (4, 4), "f64": (8, 8),
}
INT_PRIMS = ["u8", "u16", "u32", "u64", "u128", "i8", "i16", "i32", "i64", "i128"]
INT_RANGE = {
    "u8": (0, 2**8 - 1), "u16": (0, 2**16 - 1), "u32": (0, 2**32 - 1), "u64": (0, 2**64 - 1),
    "u128": (0, 2**128 - 1), "i8": (-2**7, 2**7 - 1), "i16": (-2**15, 2**15 - 1),
    "i32": (-2**31, 2**31 - 1), "i64": (-2**63, 2**63 - 1), "i128": (-2**127, 2**127 - 1),
}
CCS = ["C", "cdecl", "stdcall", "fastcall", "thiscall", "vectorcall", "system"]

DEFAULT_PROFILE = dict(
    modules=(1, 3), types=(1, 5), enums=(0, 2), externs=(0, 1), extern_values=(0, 2),
    fields=(0, 6), p_addr=0.35, p_gap=0.15, p_size=0.3, p_align=0.15, p_packed=0.1,
    p_vftable=0.3, p_base=0.35, p_impl=0.5, p_doc=0.3, p_pub=0.5, p_markers=0.3,
    p_singleton=0.15, p_backend=0.2, p_use=0.6, p_nested_mod=0.3, miss=0.12,
    vfuncs=(0, 5), p_index=0.35, impl_fns=(0, 3), args=(0, 4), p_forward=0.5,
    p_zero_array=0.05, p_ptr=0.25, p_array=0.2, p_user_field=0.35, p_cc=0.25, p_ret=0.5,
    max_depth=3, p_int_forms=0.5,
    p_vfunc_no_self=0.12,    # virtual functions declared without receiver (their wrapper does not compile: F21)
    packed_clone=False,      # `#[packed, cloneable]` (rustc accepts it only when every field is Copy)
    p_empty=0.06,            # types without any member (size 0, alignment = pointer size unless declared)
    p_zst_field=0.12,        # a by-value field of a zero-sized user type, when one is visible
    p_zst_miss=0.3,          # ... placed one byte off its alignment (near-miss: must be rejected)
    p_doc_interleave=0.25,   # attribute lines between / in front of the doc lines of an item (the order carries no meaning)
    p_nested_ptr_arg=0.12,   # pointer-to-pointer parameter / return types, mixed constness
    p_fn_name_reuse=0.0,     # an impl function named like a function of another type (clash renaming across bases)
    p_extern_only_module=0.0,  # a module that declares nothing but extern values
    p_vft_size_miss=0.0,     # extra weight of the near-miss "vftable #[size] below the occupied slots"
    p_anon_field=0.06,       # a typed member written `_: T` (any type, maybe `pub` / documented): emitted private as _field_<offset>
    p_extern_base=0.1,       # a `#[base]` member of an extern type (also in first position, in front of a polymorphic base)
    p_big_index=0.002,       # a virtual function with an #[index] a few thousand slots further on
    p_orphan_mod=0.08,       # a nested module (dir/name.pyxis) without a module file for the directory
    p_vft_block_doc=0.15,    # a doc comment on the vftable block (beside its #[size])
    p_dotted_dirs=0.0,       # two sibling directories whose names differ after a dot (v1.2/x.pyxis, v1.3/x.pyxis), self-contained
    p_big_discr=0.0,         # an enum discriminant literal in 2^63 .. 2^64-1 (pyxis reads literals as isize: a parse error today)
    # -- options of the execution oracle (tools/exec_oracle.py); off by default, and when off no random draw changes --
    addr_pool=None,          # (base, stride, count): every #[address] of an impl function, #[singleton] and extern value
                             # address is a distinct base + stride*k (k < count) instead of the usual arbitrary numbers
    sig_types=None,          # "word": parameter and return types are integers of at most 64 bits and pointers only
    p_impl_self=None,        # probability that an impl function has a receiver (None: the usual 0.8 + 0.2*0.7)
    p_fn_pub=None,           # probability that a function (impl or virtual) is `pub` (None: the usual 0.75)
    private_static_fns=False,  # impl functions without receiver are private (public ones are forwarded to derived types
                             # with a body that uses `self`: known finding F10, the emitted crate does not compile)
)


def int_lit(rng, v, forms=True):
    """a literal spelling of the non-negative integer v"""
    if not forms or v < 0:
        return str(v)
    k = rng.random()
    if k < 0.45:
        return str(v)
    if k < 0.8:
        return "0x%X" % v if rng.random() < 0.5 else "0x%x" % v
    if k < 0.9 and v >= 1000:
        s = str(v)
        return s[:-3] + "_" + s[-3:]
    if k < 0.95:
        return "0b" + bin(v)[2:]
    return "0o" + oct(v)[2:]


def _stack_can_grow():
    """tables of thousands of slots need more than the default 8 MB stack in the extracted model (tools/pyxlib.py raises
    the soft limit to the hard one); where the hard limit is small such inputs are not generated"""
    try:
        import resource
        hard = resource.getrlimit(resource.RLIMIT_STACK)[1]
        return hard == resource.RLIM_INFINITY or hard >= (1 << 30)
    except Exception:
        return False


if not _stack_can_grow():
    DEFAULT_PROFILE["p_big_index"] = 0.0


class TypeInfo:
    def __init__(self, mod, name, size, align, kind, **kw):
        self.mod, self.name, self.size, self.align, self.kind = mod, name, size, align, kind
        self.copyable = kw.get("copyable", False)
        self.cloneable = kw.get("cloneable", False)
        self.defaultable = kw.get("defaultable", False)
        self.pub = kw.get("pub", False)
        self.vfuncs = kw.get("vfuncs")          # list of vfunc descriptors or None
        self.has_vftable = kw.get("has_vftable", False)
        self.assoc = kw.get("assoc", [])        # names of public associated functions (for bases)
        self.packed = kw.get("packed", False)
        self.bases = kw.get("bases", [])

    @property
    def path(self):
        return self.mod + [self.name]


class Gen:
    def __init__(self, rng, ptr=4, profile=None):
        self.rng = rng
        self.ptr = ptr
        self.p = dict(DEFAULT_PROFILE)
        if profile:
            self.p.update(profile)
        self.uid = 0
        self.types = []          # TypeInfo, in dependency order
        self.expect = {"types": {}, "enums": {}, "vftables": {}, "funcs": {}, "externs": {}, "miss": None}
        self.mod_items = {}      # module path tuple -> list of item texts (with order key)
        self.mod_uses = {}
        self.mod_pre = {}
        self.miss_done = not (rng.random() < self.p["miss"])
        self.miss_case = not self.miss_done      # a case with a budgeted near-miss (want_miss); the opportunistic ones stay out of it

    # -- helpers ---------------------------------------------------------------------------------
    def r(self, lo_hi):
        return self.rng.randint(lo_hi[0], lo_hi[1])

    def chance(self, key):
        return self.rng.random() < self.p[key]

    def fresh(self, prefix):
        self.uid += 1
        return "%s%d" % (prefix, self.uid)

    def opportunistic(self):
        """may a near-miss that is drawn at its own small rate (not through want_miss) fire here?  Only in cases without
        a budgeted near-miss, and only one per case"""
        return self.p["miss"] > 0 and self.expect["miss"] is None and not self.miss_case

    def want_miss(self):
        if self.miss_done:
            return False
        if self.rng.random() < 0.12:
            self.miss_done = True
            return True
        return False

    def doc(self, indent=""):
        if not self.chance("p_doc"):
            return "", []
        n = self.rng.randint(1, 3)
        lines = [("" if self.rng.random() < 0.15 else
                  " " + self.rng.choice(["alpha", "beta gamma", "delta: 1", "see `x`", "x < y", "tab\there"]) + " %d" % self.rng.randint(0, 99))
                 for _ in range(n)]
        return "".join("%s///%s\n" % (indent, l) for l in lines), lines

    def interleave(self, docs, attr_text):
        """the doc lines and the attribute lines of one item: the attributes possibly in front of or between the docs"""
        if not docs or not attr_text or self.rng.random() >= self.p["p_doc_interleave"]:
            return docs + attr_text
        d, a = docs.splitlines(True), attr_text.splitlines(True)
        k = self.rng.randrange(len(d))
        return "".join(d[:k] + a + d[k:])

    def vis(self):
        return "pub " if self.chance("p_pub") else ""

    def pool_addr(self, usual):
        """the address to bind: `usual` (already drawn), or with the addr_pool option a so far unused pool address"""
        pool = self.p.get("addr_pool")
        if not pool:
            return usual
        base, stride, count = pool
        if not hasattr(self, "pool_free"):
            self.pool_free = list(range(count))
        if not self.pool_free:
            raise ValueError("addr_pool exhausted (%d addresses)" % count)
        return base + stride * self.pool_free.pop(self.rng.randrange(len(self.pool_free)))

    # -- type references ---------------------------------------------------------------------------
    def visible_types(self, mod):
        """types usable from module `mod` (already generated ones)"""
        return [t for t in self.types]

    def ref_name(self, mod, t):
        """how module `mod` names type t: short name, adding a `use` when it lives elsewhere"""
        if t.mod != mod:
            uses = self.mod_uses.setdefault(tuple(mod), [])
            # import by type or by module
            by_type = "::".join(t.path)
            by_mod = "::".join(t.mod)
            if by_type not in uses and by_mod not in uses:
                # avoid shadowing conflicts: a type import wins over everything, so only import by
                # type when no other visible type has the same short name
                uses.append(by_type if self.rng.random() < 0.6 or not t.mod else by_mod)
        return t.name

    def field_type(self, mod, depth=0, want_value=False):
        """returns (text, size, align, flags) of a random field type"""
        rng = self.rng
        k = rng.random()
        if depth < 2 and k < self.p["p_ptr"] and not want_value:
            inner, _, _, _ = self.field_type(mod, depth + 1)
            if rng.random() < 0.3:
                inner = rng.choice(["void", inner])
            return ("*%s %s" % (rng.choice(["const", "mut"]), inner), self.ptr, self.ptr, {"ptr": True})
        if depth < 2 and k < self.p["p_ptr"] + self.p["p_array"]:
            inner, s, a, fl = self.field_type(mod, depth + 1, want_value=True)
            n = 0 if self.chance("p_zero_array") else rng.randint(1, 5)
            fl2 = dict(fl)
            fl2["array"] = True
            return ("[%s; %s]" % (inner, int_lit(rng, n, self.chance("p_int_forms"))), s * n, a, fl2)
        users = [t for t in self.visible_types(mod) if t.kind in ("type", "enum", "extern")]
        zsts = [t for t in users if t.kind == "type" and t.size == 0]
        if zsts and depth == 0 and rng.random() < self.p["p_zst_field"]:
            t = rng.choice(zsts)
            return (self.ref_name(mod, t), t.size, t.align,
                    {"user": t, "copyable": t.copyable, "cloneable": t.cloneable, "defaultable": t.defaultable})
        if users and rng.random() < self.p["p_user_field"]:
            t = rng.choice(users)
            return (self.ref_name(mod, t), t.size, t.align,
                    {"user": t, "copyable": t.copyable, "cloneable": t.cloneable, "defaultable": t.defaultable})
        name = rng.choice(list(PRIMS))
        s, a = PRIMS[name]
        return (name, s, a, {"prim": True, "copyable": True, "cloneable": True, "defaultable": True})

    def arg_type(self, mod):
        rng = self.rng
        if self.p.get("sig_types") == "word":
            if rng.random() < 0.55:
                return rng.choice(["u8", "u16", "u32", "u64", "i8", "i16", "i32", "i64"])
            inner = rng.choice(["void", "u8", "i32"] + [self.ref_name(mod, t) for t in self.visible_types(mod)[:4]])
            return "*%s %s" % (rng.choice(["const", "mut"]), inner)
        k = rng.random()
        if k < 0.5:
            return rng.choice(INT_PRIMS + ["f32", "bool"])
        if k < 0.85:
            inner = rng.choice(["void", "u8", "i32"] + [self.ref_name(mod, t) for t in self.visible_types(mod)[:4]])
            if rng.random() < self.p["p_nested_ptr_arg"]:
                q = rng.choice(["const", "mut"])
                return "*%s *%s %s" % (q, "mut" if q == "const" or rng.random() < 0.3 else "const", inner)
            return "*%s %s" % (rng.choice(["const", "mut"]), inner)
        users = [t for t in self.visible_types(mod) if t.kind in ("type", "enum")]
        if users:
            return self.ref_name(mod, rng.choice(users))
        return "u32"

    # -- functions -------------------------------------------------------------------------------
    def function(self, mod, name, vfunc, index=None, force_self=None, address=None):
        rng = self.rng
        attrs = []
        docs, doc_lines = self.doc("    ")
        if index is not None:
            attrs.append("index(%s)" % int_lit(rng, index, self.chance("p_int_forms")))
        if address is not None:
            attrs.append("address(%s)" % int_lit(rng, address, self.chance("p_int_forms")))
        cc = None
        if self.chance("p_cc"):
            cc = rng.choice(CCS)
            attrs.append('calling_convention("%s")' % cc)
        has_self = force_self if force_self is not None else ((rng.random() >= self.p.get("p_vfunc_no_self", 0.12)) if vfunc else rng.random() < 0.7)
        args = []
        selfkind = None
        if has_self:
            selfkind = rng.choice(["&self", "&mut self"])
            args.append(selfkind)
        names = []
        for i in range(self.r(self.p["args"])):
            an = "a%d" % i
            at = self.arg_type(mod)
            names.append((an, at))
            args.append("%s: %s" % (an, at))
        ret = None
        if self.chance("p_ret"):
            ret = self.arg_type(mod)
        if not vfunc and self.want_miss():
            if names and rng.random() < 0.5:
                k = rng.randrange(len(names))
                names[k] = (names[k][0], rng.choice(["Missing%d" % self.uid, "*const Missing%d" % self.uid]))
                args = args[:len(args) - len(names)] + ["%s: %s" % x for x in names]
                self.expect["miss"] = "unresolvable parameter type"
            else:
                ret = rng.choice(["Missing%d" % self.uid, "*mut Missing%d" % self.uid])
                self.expect["miss"] = "unresolvable return type"
        pub = rng.random() < 0.75
        if self.p.get("p_fn_pub") is not None:
            pub = rng.random() < self.p["p_fn_pub"]
        if self.p.get("private_static_fns") and not vfunc and not has_self:
            pub = False
        rng.shuffle(attrs)       # the order of attributes carries no meaning
        atext = ""
        if attrs:
            if rng.random() < 0.5 or len(attrs) == 1:
                atext = "    #[%s]\n" % ", ".join(attrs)
            else:
                atext = "".join("    #[%s]\n" % a for a in attrs)
        text = self.interleave(docs, atext)
        text += "    %sfn %s(%s)%s" % ("pub " if pub else "", name, ", ".join(args), " -> %s" % ret if ret else "")
        desc = dict(name=name, pub=pub, selfkind=selfkind, args=names, ret=ret, cc=cc or ("thiscall" if has_self else "system"),
                    cc_explicit=cc, doc=doc_lines, index=index, address=address, text=text)
        return text, desc

    def render_fn(self, d, index=None):
        """concrete syntax of a function descriptor (used to re-declare inherited slots)"""
        text = "".join("    ///%s\n" % l for l in d["doc"])
        attrs = []
        if index is not None:
            attrs.append("index(%d)" % index)
        if d.get("cc_explicit"):
            attrs.append('calling_convention("%s")' % d["cc_explicit"])
        self.rng.shuffle(attrs)
        if attrs:
            text += "    #[%s]\n" % ", ".join(attrs)
        args = ([d["selfkind"]] if d["selfkind"] else []) + ["%s: %s" % (a, t) for a, t in d["args"]]
        text += "    %sfn %s(%s)%s" % ("pub " if d["pub"] else "", d["name"], ", ".join(args), " -> %s" % d["ret"] if d["ret"] else "")
        return text

    def mutate_slot(self, d):
        """one property-relevant difference from the base's slot; returns (descriptor, kind)"""
        rng = self.rng
        m = dict(d)
        kinds = ["name", "receiver", "cc", "ret", "arg_count"]
        if d["args"]:
            kinds.append("arg_type")
        if self.p.get("slot_mut_kinds"):
            kinds = [k_ for k_ in kinds if k_ in self.p["slot_mut_kinds"]] or kinds
        k = rng.choice(kinds)
        if k == "name":
            m["name"] = d["name"] + "x"
        elif k == "receiver":
            m["selfkind"] = "&mut self" if d["selfkind"] == "&self" else "&self"
        elif k == "cc":
            m["cc_explicit"] = rng.choice([c for c in CCS if c != d["cc"]])
        elif k == "ret":
            m["ret"] = None if d["ret"] else "u32"
            if d["ret"] and rng.random() < 0.5:
                m["ret"] = "u64" if d["ret"] != "u64" else "u8"
        elif k == "arg_count":
            m["args"] = list(d["args"]) + [("extra", "u8")] if rng.random() < 0.5 or not d["args"] else list(d["args"][:-1])
        else:
            a = list(d["args"])
            i = rng.randrange(len(a))
            a[i] = (a[i][0], "u64" if a[i][1] != "u64" else "i8")
            m["args"] = a
        return m, k

    # -- items -----------------------------------------------------------------------------------
    def add_item(self, mod, text):
        self.mod_items.setdefault(tuple(mod), []).append(text)

    def gen_extern_type(self, mod):
        name = self.fresh("X")
        align = self.rng.choice([1, 2, 4, 8])
        size = align * self.rng.randint(0, 4)
        fmt = self.rng.random()
        if fmt < 0.5:
            text = "#[size(%d), align(%d)]\nextern type %s;" % (size, align, name)
        else:
            text = "#[align(%d)]\n#[size(%s)]\nextern type %s;" % (align, int_lit(self.rng, size), name)
        if self.opportunistic() and self.rng.random() < 0.03:
            # functions can only be attached to a type the module defines
            text += "\nimpl %s {\n    #[address(0x%x)]\n    pub fn xm%d(&self) -> u32;\n}" % (name, 0x1000 + self.uid, self.uid)
            self.expect["miss"] = "impl block on an extern type"
            self.miss_done = True
        elif self.want_miss():
            if self.rng.random() < 0.5:
                text = "#[size(%d)]\nextern type %s;" % (size, name)
                self.expect["miss"] = "extern type without align"
            else:
                # functions can only be attached to a type the module defines
                text += "\nimpl %s {\n    #[address(0x%x)]\n    pub fn xm%d(&self) -> u32;\n}" % (name, 0x1000 + self.uid, self.uid)
                self.expect["miss"] = "impl block on an extern type"
        self.add_item(mod, text)
        t = TypeInfo(mod, name, size, align, "extern", pub=True)
        self.types.append(t)
        return t

    def gen_enum(self, mod):
        rng = self.rng
        name = self.fresh("E")
        base = rng.choice(INT_PRIMS)
        lo, hi = INT_RANGE[base]
        lo, hi = max(lo, -2**63), min(hi, 2**63 - 1)
        n = rng.randint(1, 6)
        cur = None
        cases = []
        values = []
        used = set()
        for i in range(n):
            cname = "V%d" % i
            explicit = rng.random() < 0.4
            nxt = 0 if cur is None else cur + 1
            if base in ("u64", "i64", "u128", "i128") and rng.random() < self.p["p_big_discr"]:
                v = rng.choice([2**63, 2**64 - 1, rng.randint(2**63, 2**64 - 1)])
                if v in used:
                    break
                used.add(v)
                cur = v
                values.append(v)
                cases.append((cname, " = %s" % int_lit(rng, v, self.chance("p_int_forms"))))
                continue
            if explicit or nxt > hi or nxt in used:
                for _ in range(20):
                    k = rng.random()
                    if k < 0.2:
                        v = rng.choice([lo, hi, 0, hi - 1, lo + 1])
                    elif k < 0.7:
                        v = rng.randint(max(lo, -40), min(hi, 300))
                    else:
                        v = rng.randint(lo, hi)
                    if v not in used and (v + (n - i - 1)) <= hi:       # the variants that follow may count on from v
                        break
                else:
                    v = None
                if v is None:
                    break
                explicit = True
            else:
                v = nxt
            if v in used:
                break
            used.add(v)
            cur = v
            values.append(v)
            if explicit:
                lit = ("-" + int_lit(rng, -v)) if v < 0 else int_lit(rng, v, self.chance("p_int_forms"))
                cases.append((cname, " = %s" % lit))
            else:
                cases.append((cname, ""))
        if not cases:
            cases, values = [("V0", "")], [0]
        copyable = cloneable = defaultable = False
        attrs = []
        if self.chance("p_markers"):
            k = rng.random()
            if k < 0.5:
                attrs.append("copyable")
                copyable = cloneable = True
            elif k < 0.8:
                attrs.append("cloneable")
                cloneable = True
        default_idx = None
        if self.chance("p_markers"):
            attrs.append("defaultable")
            defaultable = True
            default_idx = rng.randrange(len(cases))
        miss = None
        if self.want_miss():
            k = rng.random()
            if k < 0.34 and defaultable:
                default_idx, miss = None, "defaultable without default"
            elif k < 0.67 and not defaultable:
                default_idx, miss = 0, "default without defaultable"
            elif defaultable and len(cases) > 1:
                miss = "two defaults"
            else:
                self.miss_done = False
        singleton = None
        if self.chance("p_singleton"):
            singleton = self.pool_addr(rng.choice([0x10, 0x1234, 0x7FFF0000, rng.randint(1, 2**31)]))
            attrs.append("singleton(%s)" % int_lit(rng, singleton, True))
        docs, doc_lines = self.doc()
        pub = self.chance("p_pub")
        body = []
        for i, (cn, rhs) in enumerate(cases):
            pre = ""
            if default_idx == i or (miss == "two defaults" and i == (default_idx + 1) % len(cases)):
                pre = "#[default] "
            body.append("    %s%s%s" % (pre, cn, rhs))
        text = self.interleave(docs, "#[%s]\n" % ", ".join(attrs) if attrs else "")
        text += "%senum %s: %s {\n%s%s\n}" % ("pub " if pub else "", name, base, ",\n".join(body),
                                               "," if rng.random() < 0.5 else "")
        if miss:
            self.expect["miss"] = miss
        self.add_item(mod, text)
        s, a = PRIMS[base]
        t = TypeInfo(mod, name, s, a, "enum", copyable=copyable, cloneable=cloneable,
                     defaultable=defaultable and default_idx is not None, pub=pub)
        self.types.append(t)
        self.expect["enums"]["::".join(t.path)] = dict(
            base=base, cases=[(c[0], v) for c, v in zip(cases, values)], default=default_idx,
            copyable=copyable, cloneable=cloneable, defaultable=defaultable, singleton=singleton,
            pub=pub, doc=doc_lines)
        return t

    def gen_vfuncs(self, mod, owner, inherit=None):
        """returns (text of vftable block, slots list) ; slots: list of desc or None (padding)"""
        rng = self.rng
        slots = []
        texts = []
        emit_pos = 0         # the slot the next written function gets without an index attribute
        if inherit:
            real = [i for i, d in enumerate(inherit) if d is not None]
            mutate_at = None
            pre_short = bool(real) and inherit[-1] is None and self.expect["miss"] is None and not self.miss_case and \
                rng.random() < max(0.06, 0.4 * self.p.get("p_slot_mut", 0.0))
            if pre_short:
                self.miss_done = True
            if real and not pre_short and (self.want_miss() or (self.expect["miss"] is None and rng.random() < self.p.get("p_slot_mut", 0.0))):
                mutate_at = rng.choice(real)
                self.miss_done = True
            drop_tail = bool(real) and mutate_at is None and not pre_short and self.want_miss()
            shift_at = None
            shiftable = [i for i in real if i > 0 and inherit[i - 1] is None]
            if shiftable and mutate_at is None and not pre_short and not drop_tail and self.opportunistic() \
                    and rng.random() < max(0.08, 0.3 * self.p.get("p_slot_mut", 0.0)):
                # the right functions in the right order, one of them a slot earlier than in the base's table
                shift_at = rng.choice(shiftable)
                self.miss_done = True
            for i, d in enumerate(inherit):
                slots.append(d)
                if d is None:
                    continue
                if i == shift_at:
                    self.expect["miss"] = "derived vftable declares a base function one slot early"
                    texts.append(self.render_fn(d, index=i - 1))
                    emit_pos = i
                    continue
                if drop_tail and i == real[-1]:
                    self.expect["miss"] = "derived vftable omits the last base slot"
                    slots.pop()
                    break
                dd = d
                if i == mutate_at:
                    dd, kind = self.mutate_slot(d)
                    self.expect["miss"] = "derived vftable slot differs from the base's: " + kind
                texts.append(self.render_fn(dd, index=(i if (i != emit_pos or d["index"] is not None) else None)))
                emit_pos = i + 1
        n = self.r(self.p["vfuncs"])
        short_pad = False
        if inherit and pre_short:
            # the derived block repeats every named base function but ends inside the base's trailing padding
            short_pad = True
            self.expect["miss"] = "derived vftable ends inside the base's trailing padding"
            while slots and slots[-1] is None:
                slots.pop()
            n = 0
        for k in range(n):
            idx = None
            pos = len(slots)
            if self.chance("p_index") or pos != emit_pos:
                idx = pos + rng.choice([0, 0, 1, 2, 3])
                if rng.random() < self.p.get("p_big_index", 0.0):
                    idx = pos + 4090 + rng.randint(0, 16)      # a table of several thousand slots
                while len(slots) < idx:
                    slots.append(None)
            if self.want_miss() and emit_pos > 0:
                idx = emit_pos - 1
                self.expect["miss"] = "vfunc index below position"
            name = self.fresh("vf")
            t, d = self.function(mod, name, True, index=idx)
            texts.append(t)
            slots.append(d)
            emit_pos = len(slots)
        size_attr = ""
        if slots and not short_pad and (rng.random() < 0.25 or len(slots) != emit_pos):
            total = len(slots) + rng.choice([0, 0, 1, 3])
            nfuncs = len(texts)
            if emit_pos > 1 and (self.want_miss() or (self.opportunistic()
                                                     and rng.random() < self.p["p_vft_size_miss"])):
                # below the occupied slots -- and, when index gaps allow it, not below the number of declared functions
                total = rng.randint(nfuncs, emit_pos - 1) if nfuncs <= emit_pos - 1 else emit_pos - 1
                self.expect["miss"] = "vftable size below slots"
                self.miss_done = True
            size_attr = "    #[size(%s)]\n" % int_lit(rng, total, self.chance("p_int_forms"))
            while len(slots) < total:
                slots.append(None)
        if rng.random() < self.p.get("p_vft_block_doc", 0.0):
            # a doc comment on the block itself (never emitted), in front of or behind its #[size]
            dline = "    /// the table %d\n" % rng.randint(0, 99)
            size_attr = dline + size_attr if rng.random() < 0.6 else size_attr + dline
        block = size_attr + "    vftable {\n" + ";\n".join("    " + x.replace("\n", "\n    ") for x in texts) + \
            (";" if texts and rng.random() < 0.7 else "") + "\n    }"
        return block, slots

    def gen_type(self, mod):
        rng = self.rng
        name = self.fresh("T")
        ptr = self.ptr
        packed = self.chance("p_packed")
        stmts = []
        cur = 0
        max_align = 1
        fields = []          # (name, offset, size, type text)
        nregions = 0
        all_copy = all_clone = all_default = True
        bases = []
        vslots = None
        own_vftable = False
        has_vftable = False
        base_assoc = []
        base_fields = []
        # bases first (they come first in C++ layouts)
        cands = [t for t in self.visible_types(mod) if t.kind == "type" and not t.packed]
        first_base = None
        empty = self.chance("p_empty")
        if cands and not empty and self.chance("p_base"):
            nb = rng.choice([1, 1, 1, 2, 3])
            xcands = [t for t in self.visible_types(mod) if t.kind == "extern"]
            for bi in range(nb):
                b = rng.choice(cands)
                if xcands and rng.random() < self.p.get("p_extern_base", 0.0):
                    b = rng.choice(xcands)       # an opaque (extern) type as a base: no functions, no vftable
                if packed and b.align > 1:
                    continue
                if bi > 0 and b.has_vftable and rng.random() < 0.5:
                    pass
                bases.append(b)
        forced_names = None
        if cands and not empty and rng.random() < self.p["p_fn_name_reuse"] * 0.5:
            # the clash pattern: the bases of an existing type M (under M's own field names) followed by M itself --
            # what M renamed to <field>_<name> meets the same <field>_<name> once more
            ms_ = [t_ for t_ in cands if len(t_.bases) >= 2 and all(b_ in cands for b_ in t_.bases)
                   and not (packed and (t_.align > 1 or any(b_.align > 1 for b_ in t_.bases)))]
            if ms_:
                m_ = rng.choice(ms_)
                bases = list(m_.bases) + [m_]
                forced_names = [n_ for n_, _ in self.expect["types"]["::".join(m_.path)]["base_fields"]] + [self.fresh("b")]
        inherit = None
        if bases and bases[0].has_vftable:
            inherit = bases[0].vfuncs
            has_vftable = True
        declare_vft = not empty and (self.chance("p_vftable") or (inherit is not None and rng.random() < 0.5))
        if declare_vft:
            block, vslots = self.gen_vfuncs(mod, name, inherit)
            stmts.append(block)
            has_vftable = True
            if inherit is None:
                own_vftable = True
                cur = ptr
                if not packed:
                    max_align = max(max_align, ptr)
                nregions += 1
                all_default = False
        elif inherit is not None:
            vslots = inherit
        miss_here = None

        field_meta = {}
        gap_after_anon = False

        def place(fname, ttext, size, align, attrs, vis_, docs, zero_array=False, doc_lines=None, anon=False):
            nonlocal cur, max_align, nregions, all_default
            if not anon:
                field_meta[fname] = (vis_ == "pub ", doc_lines or [])
            a = 1 if packed else align
            natural = cur
            off = cur
            need_gap = (off % a) != 0
            extra = rng.random() < self.p["p_gap"]
            nonlocal gap_after_anon
            if gap_after_anon:
                # an unnamed member directly followed by a hole (two adjacent unnamed regions)
                gap_after_anon = False
                extra = True
            if need_gap or extra:
                off = (off + a - 1) // a * a
                if extra:
                    off += a * rng.randint(0, 3) if not packed else rng.randint(0, 5)
            explicit = off != natural or self.chance("p_addr")
            if off - natural > 32:
                all_default = False      # derive(Default) exists for arrays of at most 32 elements (documented fragment)
            nonlocal miss_here
            if size == 0 and not zero_array and a > 1 and natural > 0 and miss_here is None \
                    and self.opportunistic() and rng.random() < self.p["p_zst_miss"]:
                # a zero-sized member still has an alignment: rustc pads in front of it
                off = natural + (a - natural % a) % a + 1
                explicit = True
                miss_here = "zero-sized field off alignment by one"
                self.miss_done = True
            elif natural > 0 and not packed and align > 1 and miss_here is None and not (zero_array and size == 0) \
                    and self.opportunistic() and rng.random() < (0.05 if zero_array else 0.012):
                # (zero_array marks every array-typed member) the alignment of an array is that of its elements
                off = natural + (a - natural % a) % a + 1
                explicit = True
                miss_here = "address off alignment by one"
                self.miss_done = True
            elif self.want_miss() and natural > 0:
                k = rng.random()
                if k < 0.5:
                    off = natural - 1
                    explicit = True
                    miss_here = "overlap by one"
                elif not packed and align > 1 and not (zero_array and size == 0):
                    off = natural + (a - natural % a) % a + 1
                    explicit = True
                    miss_here = "address off alignment by one"
                else:
                    self.miss_done = False
            line = ""
            if explicit and off != natural and rng.random() < 0.4 and off > natural:
                # write the gap as an unknown<N> field instead of an address
                k_ = rng.random()
                stmts.append(("    /// reserved\n" if k_ < 0.1 else "") +
                             "    %s_: unknown<%s>" % ("pub " if 0.05 < k_ < 0.2 else "", int_lit(rng, off - natural, self.chance("p_int_forms"))))
                nregions += 1
                explicit = rng.random() < 0.3
            elif off != natural:
                nregions += 1
            al = list(attrs)
            if explicit:
                al.append("address(%s)" % int_lit(rng, off, self.chance("p_int_forms")))
            rng.shuffle(al)
            atext = ""
            if al:
                atext = "    #[%s]\n" % ", ".join(al) if rng.random() < 0.6 else "".join("    #[%s]\n" % x for x in al)
            line = self.interleave(docs, atext)
            line += "    %s%s: %s" % (vis_, "_" if anon else fname, ttext)
            stmts.append(line)
            if anon:
                # an unnamed member is a private, undocumented `_field_<offset in hex>` whatever was written on it
                fname = "_field_%x" % off
                field_meta[fname] = (False, [])
                gap_after_anon = rng.random() < 0.6
            if not (zero_array and size == 0):
                nregions += 1
                if not packed:
                    max_align = max(max_align, align)
            fields.append((fname, off, size, ttext, explicit, zero_array and size == 0))
            cur = off + size

        for bi_, b in enumerate(bases):
            fname = self.fresh("b")
            if forced_names is not None:
                fname = forced_names[bi_]
            elif rng.random() < self.p["p_fn_name_reuse"]:
                # the same field name as a base field of another type (renamed inherited functions are called <field>_<name>)
                seen_ = sorted(set(n_ for t_ in self.expect["types"].values() for n_, _ in t_["base_fields"]) - set(x[0] for x in base_fields))
                if seen_:
                    fname = rng.choice(seen_)
            docs, dl = self.doc("    ")
            place(fname, self.ref_name(mod, b), b.size, b.align, ["base"], self.vis(), docs, doc_lines=dl)
            base_fields.append((fname, "::".join(b.path)))
            all_copy &= b.copyable
            all_clone &= b.cloneable
            all_default &= b.defaultable
            base_assoc.extend(b.assoc)
        for i in range(0 if empty else self.r(self.p["fields"])):
            ttext, size, align, fl = self.field_type(mod)
            fname = self.fresh("f")
            docs, dl = self.doc("    ")
            anon = size > 0 and rng.random() < self.p.get("p_anon_field", 0.0)
            place(fname, ttext, size, align, [], self.vis(), docs, zero_array=fl.get("array", False), doc_lines=dl, anon=anon)
            all_copy &= fl.get("copyable", False) or fl.get("ptr", False)
            all_clone &= fl.get("cloneable", False) or fl.get("ptr", False)
            all_default &= fl.get("defaultable", False) and not fl.get("ptr", False)
        natural_end = cur
        attrs = []
        # alignment and size
        align_attr = None
        if packed:
            attrs.append("packed")
            eff_align = 1
        else:
            if self.chance("p_align"):
                align_attr = max(max_align, rng.choice([1, 2, 4, 8, 16]))
                eff_align = align_attr
            else:
                eff_align = ptr if nregions != 1 else None
        total = natural_end
        size_attr = None
        if eff_align is None:
            # exactly one region: its alignment is used; any tail padding adds a region
            eff_align = max_align
            if total % eff_align != 0:
                eff_align = None
        if eff_align is None or total % eff_align != 0 or eff_align < max_align:
            # repair: explicit alignment that works and size padded to it
            align_attr = max(max_align, align_attr or 1)
            eff_align = align_attr
            if not packed and total % eff_align != 0:
                total = (total + eff_align - 1) // eff_align * eff_align
                size_attr = total
        if size_attr is None and self.chance("p_size"):
            extra = rng.choice([0, 0, 1, 2]) * (eff_align if not packed else rng.randint(0, 3))
            if not packed and align_attr is None and nregions <= 1 and extra:
                extra = 0   # padding would change the single-region alignment rule
            total = total + extra
            size_attr = total
        if align_attr is not None and not packed and nregions != 1 and max_align > ptr and miss_here is None \
                and self.opportunistic() and rng.random() < 0.03:
            # without the attribute the alignment is the pointer size: below what a member needs
            align_attr = None
            miss_here = "default alignment below a member's alignment"
            self.miss_done = True
        elif miss_here is None and self.opportunistic() and not packed and (eff_align or 1) > 1 and natural_end > 0 and rng.random() < 0.03:
            if rng.random() < 0.7:
                size_attr = total + rng.randint(1, eff_align - 1)
                miss_here = "size not a multiple of the alignment"
            else:
                size_attr = natural_end - 1
                miss_here = "size one too small"
            self.miss_done = True
        elif self.want_miss():
            k = rng.random()
            if k < 0.25 and natural_end > 0:
                size_attr = natural_end - 1
                miss_here = "size one too small"
            elif k < 0.45 and not packed and (eff_align or 1) > 1 and nregions > 0:
                # (a type without any region is different: the padding becomes its sole member, alignment 1 -- legitimately accepted)
                size_attr = total + rng.randint(1, eff_align - 1)
                miss_here = "size not a multiple of the alignment"
            elif k < 0.7 and not packed:
                align_attr = rng.choice([3, 6, 12])
                miss_here = "alignment not a power of two"
            elif packed:
                align_attr = 4
                miss_here = "packed and align"
            else:
                self.miss_done = False
        if align_attr is not None:
            attrs.append("align(%s)" % int_lit(rng, align_attr, self.chance("p_int_forms")))
        if size_attr is not None:
            attrs.append("size(%s)" % int_lit(rng, size_attr, self.chance("p_int_forms")))
        copyable = cloneable = defaultable = False
        if self.chance("p_markers"):
            k = rng.random()
            if k < 0.4 and all_copy:
                attrs.append("copyable")
                copyable = cloneable = True
            elif k < 0.7 and all_clone and (not packed or (self.p.get("packed_clone") and all_copy)):
                attrs.append("cloneable")
                cloneable = True
        if self.chance("p_markers") and all_default:
            attrs.append("defaultable")
            defaultable = True
        singleton = None
        if self.chance("p_singleton"):
            singleton = self.pool_addr(rng.choice([0x20, 0xDEADBEEF, rng.randint(1, 2**32 - 1)]))
            attrs.append("singleton(%s)" % int_lit(rng, singleton, True))
        docs, doc_lines = self.doc()
        pub = self.chance("p_pub")
        rng.shuffle(attrs)
        atext = ""
        if attrs:
            atext = "#[%s]\n" % ", ".join(attrs) if rng.random() < 0.6 else "".join("#[%s]\n" % a for a in attrs)
        text = self.interleave(docs, atext)
        if not stmts and rng.random() < 0.5:
            text += "%stype %s;" % ("pub " if pub else "", name)
        else:
            text += "%stype %s {\n%s%s\n}" % ("pub " if pub else "", name, ",\n".join(stmts),
                                               "," if stmts and rng.random() < 0.5 else "")
        self.add_item(mod, text)
        # impl block
        assoc = list(base_assoc)
        impl_desc = []
        if self.chance("p_impl"):
            fns = []
            taken = set(d["name"] for d in (vslots or []) if d) | set(assoc)
            for i in range(self.r(self.p["impl_fns"])):
                fname = self.fresh("m")
                others = sorted(set(n for t_ in self.types if t_.kind == "type" for n in (t_.assoc or [])) - taken)
                if others and rng.random() < self.p["p_fn_name_reuse"]:
                    fname = rng.choice(others)
                own_vf = [d_["name"] for d_ in (vslots or []) if d_ and declare_vft]
                if own_vf and self.opportunistic() and miss_here is None and rng.random() < 0.012:
                    fname = rng.choice(own_vf)       # a name one of the type's own virtual functions (public or private) has
                    miss_here = "impl function named like a virtual function of the type"
                    self.miss_done = True
                taken.add(fname)
                addr = self.pool_addr(rng.choice([0, 0x10, 0x401000, 2**31, 2**32 - 1, rng.randint(1, 2**40)]))
                if self.want_miss():
                    addr = None
                    self.expect["miss"] = "impl function without address"
                force_self = True if rng.random() < 0.8 else None
                if self.p.get("p_impl_self") is not None:
                    force_self = rng.random() < self.p["p_impl_self"]
                t, d = self.function(mod, fname, False, address=addr, force_self=force_self)
                fns.append(t)
                impl_desc.append(d)
                if d["pub"]:
                    assoc.append(fname)
            if fns:
                self.add_item(mod, "impl %s {\n%s;\n}" % (name, ";\n".join(fns)))
        if miss_here:
            self.expect["miss"] = miss_here
        t = TypeInfo(mod, name, total, eff_align, "type", copyable=copyable, cloneable=cloneable,
                     defaultable=defaultable, pub=pub, vfuncs=vslots, has_vftable=has_vftable, assoc=assoc,
                     packed=packed, bases=bases)
        self.types.append(t)
        self.expect["types"]["::".join(t.path)] = dict(
            fields=fields, size=total, align=eff_align, packed=packed, own_vftable=own_vftable,
            has_vftable=has_vftable, slots=[(d["name"] if d else None) for d in (vslots or [])],
            slot_descs=[({k: v for k, v in d.items() if k != "text"} if d else None) for d in (vslots or [])],
            declared_vft=declare_vft, copyable=copyable, cloneable=cloneable, defaultable=defaultable,
            singleton=singleton, pub=pub, doc=doc_lines, impls=impl_desc,
            bases=["::".join(b.path) for b in bases], base_fields=base_fields, field_meta=field_meta)
        return t

    def gen_extern_value(self, mod):
        rng = self.rng
        name = self.fresh("g")
        ttext, _, _, _ = self.field_type(mod)
        addr = self.pool_addr(rng.choice([0x1000, 0xFFFF0000, rng.randint(0, 2**32)]))
        pub = self.chance("p_pub")
        if self.want_miss():
            text = "%sextern %s: %s;" % ("pub " if pub else "", name, ttext)
            self.expect["miss"] = "extern value without address"
        else:
            text = "#[address(%s)]\n%sextern %s: %s;" % (int_lit(rng, addr, True), "pub " if pub else "", name, ttext)
        self.add_item(mod, text)
        self.expect["externs"]["::".join(mod + [name])] = dict(addr=addr, type=ttext, pub=pub)

    # -- whole inputs ------------------------------------------------------------------------------
    def generate(self):
        """returns (files {relpath: text}, expect)"""
        rng = self.rng
        nmods = self.r(self.p["modules"])
        mods = []
        for i in range(nmods):
            if mods and self.chance("p_nested_mod"):
                parent = rng.choice(mods)
                if len(parent) < self.p["max_depth"]:
                    mods.append(parent + [self.fresh("n")])
                    continue
            if rng.random() < self.p.get("p_orphan_mod", 0.0):
                # a nested module whose enclosing directory has no module file of its own
                mods.append([self.fresh("dir"), self.fresh("n")])
                continue
            mods.append([self.fresh("mod")])
        # items in dependency order, spread over the modules
        plan = []
        extern_only = set()
        for mi, m in enumerate(mods):
            if mi > 0 and self.chance("p_extern_only_module"):
                extern_only.add(tuple(m))        # nothing but extern values (their types live in other modules)
                continue
            plan += [("extern", m)] * self.r(self.p["externs"])
            plan += [("enum", m)] * self.r(self.p["enums"])
            plan += [("type", m)] * self.r(self.p["types"])
        rng.shuffle(plan)
        for kind, m in plan:
            if kind == "extern":
                self.gen_extern_type(m)
            elif kind == "enum":
                self.gen_enum(m)
            else:
                self.gen_type(m)
        for m in mods:
            for _ in range(max(self.r(self.p["extern_values"]), 1 if tuple(m) in extern_only else 0)):
                self.gen_extern_value(m)
        files = {}
        for m in mods:
            items = self.mod_items.get(tuple(m), [])
            if self.chance("p_forward"):
                rng.shuffle(items)
            head = ""
            mdoc = []
            if self.chance("p_doc"):
                mdoc = [" module %s" % "::".join(m)] + ([""] if rng.random() < 0.2 else [])
                head += "".join("//!%s\n" % l for l in mdoc)
            uses = self.mod_uses.get(tuple(m), [])
            body = "".join("use %s;\n" % u for u in uses)
            pro = epi = None
            pro_seq = epi_seq = None
            backs = ""
            if self.chance("p_backend"):
                k = rng.random()
                pro = "pub const PRO_%s: u32 = %d;" % (m[-1].upper(), rng.randint(0, 9))
                epi = "pub fn epi_%s() {}" % m[-1]
                if rng.random() < 0.3:
                    pro += " // trailing note"       # the text ends in a line comment: whatever follows must start on a new line
                if rng.random() < 0.25:
                    # several statements of one kind in one braced block: emitted in source order
                    pro2 = "pub const PRO2_%s: u32 = %d;" % (m[-1].upper(), rng.randint(0, 9))
                    epi2 = "pub fn epi2_%s() {}" % m[-1]
                    backs += 'backend rust {\n    prologue "%s";\n    prologue "%s";\n    epilogue "%s";\n    epilogue "%s";\n}\n' % (pro, pro2, epi2, epi)
                    pro_seq = ["PRO_" + m[-1].upper(), "PRO2_" + m[-1].upper()]
                    epi_seq = ["epi2_" + m[-1], "epi_" + m[-1]]
                elif k < 0.33:
                    backs += 'backend rust prologue "%s";\nbackend rust epilogue "%s";\n' % (pro, epi)
                elif k < 0.66:
                    backs += 'backend rust {\n    prologue r#"\n%s\n"#;\n    epilogue "%s";\n}\n' % (pro, epi)
                else:
                    backs += 'backend rust prologue "%s";\nbackend cpp prologue "#include <x>";\nbackend rust { epilogue "%s"; }\n' % (pro, epi)
            text = head + body + backs + "\n".join(items) + "\n"
            files["/".join(m) + ".pyxis"] = text
            self.expect.setdefault("modules", {})["/".join(m)] = dict(doc=mdoc, pro=pro, epi=epi, pro_seq=pro_seq, epi_seq=epi_seq)
        if rng.random() < self.p.get("p_dotted_dirs", 0.0):
            # directory names are module path segments as they are: `v1.2` and `v1.3` are different modules
            stem, leaf = self.fresh("v") , self.fresh("n")
            for k_, tn_ in ((2, "Circle"), (3, "Square")):
                rel = "%s.%d/%s" % (stem, k_, leaf)
                tname = tn_ + str(self.uid)
                files[rel + ".pyxis"] = "pub type %s { pub r: f32 }\n" % tname
                self.expect["modules"][rel] = dict(doc=[], pro=None, epi=None, pro_seq=None, epi_seq=None)
                self.expect["types"]["%s.%d::%s::%s" % (stem, k_, leaf, tname)] = dict(
                    fields=[("r", 0, 4, "f32", False, False)], size=4, align=4, packed=False, own_vftable=False, has_vftable=False,
                    slots=[], slot_descs=[], declared_vft=False, copyable=False, cloneable=False, defaultable=False, singleton=None,
                    pub=True, doc=[], impls=[], bases=[], base_fields=[], field_meta={"r": (True, [])})
        return files, self.expect


def generate(seed, ptr=4, profile=None):
    g = Gen(random.Random(seed), ptr, profile)
    return g.generate()


if __name__ == "__main__":
    import sys
    files, exp = generate(int(sys.argv[1]) if len(sys.argv) > 1 else 0)
    for k, v in files.items():
        print("=====", k)
        print(v)
    print(exp["miss"])


# ---- semantic mutations: small edits of a generated input that keep it parseable most of the time ----
PRIM_SWAP = ["u8", "u16", "u32", "u64", "i32", "bool", "f32", "*const u8", "*mut u32", "[u8; 3]", "[u32; 2]", "u128"]
NUM_RE = re.compile(r"(?<![A-Za-z_0-9#\"])(0x[0-9a-fA-F_]+|0b[01_]+|0o[0-7_]+|\d[\d_]*)(?![A-Za-z_0-9\"])")


def semantic_mutation(rng, files):
    """returns (files', description) -- one or two small edits of one file: a number changed a little, an attribute
    dropped / repeated, two neighbouring lines swapped, a line dropped, `pub` toggled, a primitive type replaced.
    The result is what a hurried author could have written; nothing is known about what it should mean, so only
    the agreement of model and implementation is checked on it."""
    name = rng.choice(sorted(files))
    lines = files[name].split("\n")
    what = []
    for _ in range(rng.choice([1, 1, 2])):
        k = rng.random()
        idx = [i for i, l in enumerate(lines) if l.strip()]
        if not idx:
            break
        if k < 0.3:
            cand = [(i, m) for i in idx for m in NUM_RE.finditer(lines[i]) if "///" not in lines[i] and "//!" not in lines[i]]
            if not cand:
                continue
            i, m = rng.choice(cand)
            txt = m.group(1).replace("_", "")
            v = int(txt, 0) if not txt.startswith("0o") else int(txt[2:], 8)
            nv = rng.choice([v + 1, max(0, v - 1), v * 2, 0, v + 4, v + 8, max(0, v - 4)])
            lines[i] = lines[i][:m.start(1)] + str(nv) + lines[i][m.end(1):]
            what.append("number %d -> %d" % (v, nv))
        elif k < 0.45:
            cand = [i for i in idx if lines[i].strip().startswith("#[")]
            if not cand:
                continue
            i = rng.choice(cand)
            if rng.random() < 0.6:
                what.append("attribute line dropped: " + lines[i].strip()[:40])
                del lines[i]
            else:
                what.append("attribute line repeated: " + lines[i].strip()[:40])
                lines.insert(i, lines[i])
        elif k < 0.6:
            cand = [i for i in idx[:-1] if lines[i].rstrip().endswith((",", ";")) and lines[i + 1].rstrip().endswith((",", ";"))
                    and lines[i].startswith("    ") and lines[i + 1].startswith("    ")]
            if not cand:
                continue
            i = rng.choice(cand)
            lines[i], lines[i + 1] = lines[i + 1], lines[i]
            what.append("two neighbouring lines swapped")
        elif k < 0.7:
            cand = [i for i in idx if lines[i].startswith("    ") and lines[i].rstrip().endswith(",") and ":" in lines[i]]
            if not cand:
                continue
            i = rng.choice(cand)
            what.append("line dropped: " + lines[i].strip()[:40])
            del lines[i]
        elif k < 0.82:
            cand = [i for i in idx if re.search(r"\bpub (type|enum|fn|extern|[a-z_][a-z_0-9]*:)", lines[i])]
            cand2 = [i for i in idx if re.match(r"^\s*(type|enum|fn|extern) ", lines[i]) or re.match(r"^    [a-z_][a-z_0-9]*: ", lines[i])]
            if cand and rng.random() < 0.5:
                i = rng.choice(cand)
                lines[i] = re.sub(r"\bpub ", "", lines[i], count=1)
                what.append("pub removed")
            elif cand2:
                i = rng.choice(cand2)
                lines[i] = re.sub(r"^(\s*)", r"\1pub ", lines[i], count=1)
                what.append("pub added")
        else:
            cand = [i for i in idx if re.match(r"^    (pub )?[a-z_][a-z_0-9]*: [^,]+,?\s*$", lines[i])]
            if not cand:
                continue
            i = rng.choice(cand)
            nt = rng.choice(PRIM_SWAP)
            lines[i] = re.sub(r": [^,]+(,?\s*)$", ": %s\\1" % nt, lines[i])
            what.append("field type replaced by " + nt)
    out = dict(files)
    out[name] = "\n".join(lines)
    return out, "; ".join(what) or "unchanged"
