"""Run a set of cases through implementation and model and collect, per case, the verdicts and the
aspect-tagged differences."""
import collections
import sx
import pyxlib as P
import corr


class CaseResult:
    __slots__ = ("case", "h", "m", "hv", "mv", "diffs", "hfiles", "mfiles")


def run(cases, workdir, want_model=True):
    hres = P.run_harness(cases, workdir)
    texts, idx = [], []
    for i, c in enumerate(cases):
        if not want_model:
            break
        t = P.model_case_text(hres[c["id"]], c.get("ptr", 4), c.get("schedule") or [])
        if t is not None:
            texts.append(t)
            idx.append(i)
    mres = dict(zip(idx, P.run_model(texts, workdir))) if texts else {}
    ops = set()
    for m in mres.values():
        ops |= P.collect_opaque(m)
    snips = P.rsdump_snippets(sorted(ops), workdir) if ops else {}
    out = []
    for i, c in enumerate(cases):
        r = CaseResult()
        r.case = c
        r.h = hres[c["id"]]
        r.m = mres.get(i)
        r.hv = P.verdict_class((sx.field(r.h, "verdict") or ["missing"])[0])
        r.mv = P.verdict_class((sx.field(r.m, "verdict") or ["missing"])[0]) if r.m is not None else None
        r.diffs = []
        r.hfiles = P.files_of(r.h)
        r.mfiles = None
        if r.m is not None:
            hv, mv = r.hv[0], r.mv[0]
            # the implementation's plain errors and the model's are one class; messages are not compared
            if hv == "err" and mv == "ok" and "Could not parse generated Rust code" in str(r.hv[1]) and \
                    any((sx.tagged(it, "opaque") or [None])[0] is not None and
                        (snips.get(sx.tagged(it, "opaque")[0]) or ["x"])[0] != "file"
                        for f in P.files_of(r.m).values() for it in f[2:]):
                # the user's prologue/epilogue text is not Rust: the real back end refuses to pretty-print, the
                # model (for which that text is opaque) cannot know -- not a disagreement about pyxis
                r.diffs.append(("opaque_unparsable", "user-supplied backend text does not parse as Rust"))
            elif hv != mv:
                r.diffs.append(("verdict", "impl %s (%s) vs model %s (%s)" % (hv, str(r.hv[1])[:300], mv, str(r.mv[1])[:200])))
            elif hv == "noprogress" and r.hv[1] != r.mv[1]:
                r.diffs.append(("noprogress_set", "impl %s vs model %s" % (r.hv[1], r.mv[1])))
            if hv == "ok" and mv == "ok":
                mf = {k: P.expand_opaque(v, snips) for k, v in P.files_of(r.m).items()}
                r.mfiles = mf
                if sorted(r.hfiles) != sorted(mf):
                    r.diffs.append(("fileset", "impl %s vs model %s" % (sorted(r.hfiles), sorted(mf))))
                for k in r.hfiles:
                    if k in mf:
                        r.diffs.extend(corr.diff_file(k, r.hfiles[k], mf[k]))
                d = P.first_diff(sx.field(r.h, "registry"), sx.field(r.m, "registry"))
                if d:
                    r.diffs.append(("registry", d))
        out.append(r)
    return out
