"""C20 runner: meaning-preserving rewrites applied to structured descriptions; the real pyxis builds
both sides and the outputs are compared byte for byte (content hash)."""
import collections
import copy
import json
import os
import random

import sx
import gen
import engine
import props
import pyxlib as P

TYPES = [("u8", 1, 1), ("u16", 2, 2), ("u32", 4, 4), ("u64", 8, 8), ("i16", 2, 2), ("f32", 4, 4),
         ("[u16; 3]", 6, 2), ("[u8; 5]", 5, 1), ("*const u8", None, None), ("*mut i32", None, None), ("bool", 1, 1)]


def spell(rng, v, mode):
    if mode == 0 or v < 0:
        return str(v)
    return gen.int_lit(rng, v, True)


def make_desc(rng, ptr):
    """a module description as plain data"""
    d = dict(types=[], enums=[])
    for ti in range(rng.randint(1, 3)):
        cur = 0
        maxal = 1
        entries = []       # ('field', name, type, addr|None) | ('gap', n)
        own_vft = rng.random() < 0.4
        vfuncs = []
        if own_vft:
            cur = ptr
            maxal = ptr
            pos = 0
            for k in range(rng.randint(1, 4)):
                idx = None
                if rng.random() < 0.4:
                    pos += rng.choice([0, 0, 1, 2])
                    idx = pos
                vfuncs.append(dict(name="vf%d_%d" % (ti, k), index=idx, slot=pos))
                pos += 1
        def place(fname, tname, s, a, base=False):
            nonlocal cur, maxal
            off = (cur + a - 1) // a * a
            if rng.random() < 0.3:
                off += a * rng.randint(1, 2)
            k = rng.random()
            if off != cur:
                if off - cur >= 2 and rng.random() < 0.3:
                    # the distance is covered in two steps: a gap, then a second gap or an address
                    g1 = rng.randint(1, off - cur - 1)
                    entries.append(("gap", g1))
                    if k < 0.5:
                        entries.append(("gap", off - cur - g1))
                        addr = None if rng.random() < 0.7 else off
                    else:
                        addr = off
                elif k < 0.5:
                    entries.append(("gap", off - cur))
                    addr = None if rng.random() < 0.7 else off
                else:
                    addr = off
            else:
                addr = off if k < 0.3 else None
            entries.append(("field", fname, tname, addr, off, s, base))
            cur = off + s
            maxal = max(maxal, a)

        # a base sub-object first (as C++ lays it out), possibly behind a gap: an earlier type of this module
        if d["types"] and not own_vft and rng.random() < 0.4:
            b = rng.choice(d["types"])
            place("b%d" % ti, b["name"], b["total"], b["eff_align"], base=True)
        for fi in range(rng.randint(1, 5)):
            tname, s, a = rng.choice(TYPES)
            if s is None:
                s = a = ptr
            place("f%d_%d" % (ti, fi), tname, s, a)
        nregions = (1 if own_vft else 0) + len(entries)
        align = None
        size = None
        if nregions != 1 or cur % maxal:
            need = max(maxal, ptr if rng.random() < 0.5 else maxal)
            if cur % need:
                cur_total = (cur + need - 1) // need * need
                size = cur_total
            else:
                cur_total = cur
            if need != ptr or rng.random() < 0.3:
                align = need
            elif cur_total % ptr or maxal > ptr:
                align = max(need, maxal)
                if cur_total % align:
                    cur_total = (cur_total + align - 1) // align * align
                    size = cur_total
        else:
            cur_total = cur
        d["types"].append(dict(name="T%d" % ti, entries=entries, size=size, align=align, natural=cur, total=cur_total,
                               vfuncs=vfuncs if own_vft else None,
                               eff_align=align if align is not None else (ptr if nregions != 1 else maxal)))
    for ei in range(rng.randint(0, 2)):
        cases = []
        v = -1
        used = set()
        for k in range(rng.randint(1, 5)):
            if rng.random() < 0.4 or v + 1 in used:
                # explicit values need not increase: an implicit successor continues from the LAST value
                nv = v + rng.randint(1, 20) if rng.random() < 0.6 else rng.randint(0, 40)
                while nv in used:
                    nv += 1
                v = nv
                cases.append(("V%d" % k, v, True))
            else:
                v += 1
                cases.append(("V%d" % k, v, False))
            used.add(v)
        d["enums"].append(dict(name="E%d" % ei, base=rng.choice(["u8", "i32", "u64"]), cases=cases))
    d["order"] = list(range(len(d["types"]) + len(d["enums"])))
    return d


def render(d, rng, spell_mode):
    items = []
    for t in d["types"]:
        attrs = []
        if t["align"] is not None:
            attrs.append("align(%s)" % spell(rng, t["align"], spell_mode))
        if t["size"] is not None:
            attrs.append("size(%s)" % spell(rng, t["size"], spell_mode))
        body = []
        if t["vfuncs"] is not None:
            fs = []
            for vf in t["vfuncs"]:
                pre = "#[index(%s)] " % spell(rng, vf["index"], spell_mode) if vf["index"] is not None else ""
                fs.append("        %spub fn %s(&self, a: u32) -> u32" % (pre, vf["name"]))
            body.append("    vftable {\n%s;\n    }" % ";\n".join(fs))
        for e in t["entries"]:
            if e[0] == "gap":
                # what is written on a hole (`pub`, a doc comment) is dropped: the member is private and undocumented
                k = rng.random()
                deco = "    /// reserved, do not touch\n" if k < 0.12 else ""
                body.append(deco + "    %s_: unknown<%s>" % ("pub " if 0.06 < k < 0.2 else "", spell(rng, e[1], spell_mode)))
            else:
                pre = "#[address(%s)] " % spell(rng, e[3], spell_mode) if e[3] is not None else ""
                if len(e) > 6 and e[6]:
                    pre += "#[base] "
                body.append("    %spub %s: %s" % (pre, e[1], e[2]))
        items.append(("#[%s]\n" % ", ".join(attrs) if attrs else "") + "pub type %s {\n%s\n}" % (t["name"], ",\n".join(body)))
    for e in d["enums"]:
        cs = ["    %s%s" % (n, " = %s" % spell(rng, v, spell_mode) if ex else "") for n, v, ex in e["cases"]]
        items.append("pub enum %s: %s {\n%s\n}" % (e["name"], e["base"], ",\n".join(cs)))
    return "\n".join(items[i] for i in d["order"]) + "\n"


def rewrites(d, rng):
    """returns (new description, list of rewrite names applied) -- 1..3 applicable rewrites"""
    d = copy.deepcopy(d)
    applied = []
    cands = []
    for ti, t in enumerate(d["types"]):
        ents = t["entries"]
        for i, e in enumerate(ents):
            if e[0] == "field":
                if e[3] is None:
                    cands.append(("address_explicit", ti, i))
                else:
                    prev_end = (d_ptr if t["vfuncs"] is not None else 0)
                    for p in ents[:i]:
                        prev_end = (p[4] + p[5]) if p[0] == "field" else prev_end + p[1]
                    if e[3] == prev_end:
                        cands.append(("address_implicit", ti, i))
                    elif e[3] > prev_end:
                        cands.append(("address_to_gap", ti, i, e[3] - prev_end))
                if i > 0 and ents[i - 1][0] == "gap" and e[3] is None:
                    cands.append(("gap_to_address", ti, i))
        if t["size"] is None and t["natural"] == t["total"]:
            cands.append(("natural_size", ti))
        if t["vfuncs"]:
            for k, vf in enumerate(t["vfuncs"]):
                if vf["index"] is None:
                    cands.append(("index_explicit", ti, k))
                else:
                    prev = t["vfuncs"][k - 1]["slot"] + 1 if k else 0
                    if vf["index"] == prev:
                        cands.append(("index_implicit", ti, k))
    for ei, e in enumerate(d["enums"]):
        for k, (n, v, ex) in enumerate(e["cases"]):
            if not ex:
                cands.append(("enum_explicit", ei, k))
            else:
                prev = e["cases"][k - 1][1] + 1 if k else 0
                if v == prev:
                    cands.append(("enum_implicit", ei, k))
    if len(d["order"]) > 1:
        cands.append(("reorder",))
    cands.append(("respell",))
    rng.shuffle(cands)
    # the gap / address spelling in front of a base sub-object is chosen first more often than chance would
    if rng.random() < 0.7:
        based = [c for c in cands if c[0] in ("gap_to_address", "address_to_gap", "address_explicit", "address_implicit")
                 and len(d["types"][c[1]]["entries"][c[2]]) > 6 and d["types"][c[1]]["entries"][c[2]][6]]
        cands = based + [c for c in cands if c not in based]
    done_idx = set()
    for c in cands[:rng.randint(1, 3)]:
        kind = c[0]
        if kind == "reorder":
            rng.shuffle(d["order"])
        elif kind == "respell":
            pass
        elif kind in ("address_explicit", "address_implicit", "gap_to_address", "address_to_gap"):
            ti, i = c[1], c[2]
            if (ti, "e") in done_idx:
                continue          # one structural edit per type keeps indices valid
            done_idx.add((ti, "e"))
            ents = d["types"][ti]["entries"]
            e = ents[i]
            if kind == "address_explicit":
                ents[i] = (e[0], e[1], e[2], e[4], e[4], e[5]) + tuple(e[6:])
            elif kind == "address_implicit":
                ents[i] = (e[0], e[1], e[2], None, e[4], e[5]) + tuple(e[6:])
            elif kind == "gap_to_address":
                ents[i] = (e[0], e[1], e[2], e[4], e[4], e[5]) + tuple(e[6:])
                del ents[i - 1]
            else:
                ents[i] = (e[0], e[1], e[2], None, e[4], e[5]) + tuple(e[6:])
                ents.insert(i, ("gap", c[3]))
        elif kind == "natural_size":
            d["types"][c[1]]["size"] = d["types"][c[1]]["natural"]
        elif kind == "index_explicit":
            d["types"][c[1]]["vfuncs"][c[2]]["index"] = d["types"][c[1]]["vfuncs"][c[2]]["slot"]
        elif kind == "index_implicit":
            d["types"][c[1]]["vfuncs"][c[2]]["index"] = None
        elif kind == "enum_explicit":
            n, v, _ = d["enums"][c[1]]["cases"][c[2]]
            d["enums"][c[1]]["cases"][c[2]] = (n, v, True)
        elif kind == "enum_implicit":
            n, v, _ = d["enums"][c[1]]["cases"][c[2]]
            d["enums"][c[1]]["cases"][c[2]] = (n, v, False)
        applied.append(kind)
    return d, applied


d_ptr = 4


def runner(pid, prop, tier, seed, scratch, replay=None):
    global d_ptr
    n = 400 if tier == "quick" else 8000
    rng = random.Random(seed)
    cases = []
    meta = []
    if replay:
        doc = json.load(open(os.path.join(P.VERIF, replay) if not os.path.isabs(replay) else replay))
        for side in ("original", "rewritten"):
            cases.append(dict(id="replay-" + side, ptr=doc["ptr"], schedule=[], files=doc[side]))
        meta.append((doc.get("rewrites"), None))
    else:
        for i in range(n):
            ptr = 4 if i % 2 == 0 else 8
            d_ptr = ptr
            d = make_desc(rng, ptr)
            d2, applied = rewrites(d, rng)
            a = render(d, rng, 0)
            b = render(d2, rng, 1 if "respell" in applied else 0)
            cases.append(dict(id="c20-%d-a" % i, ptr=ptr, schedule=[], files={"m.pyxis": a}))
            cases.append(dict(id="c20-%d-b" % i, ptr=ptr, schedule=[], files={"m.pyxis": b}))
            meta.append((applied, d))
    results = engine.run(cases, scratch)
    out = dict(evaluations=len(meta), failures=[], breaks=[], samples=[], notes=[])
    dist = collections.Counter()
    nontrivial = 0
    seen = set()
    for k, (applied, _) in enumerate(meta):
        ra, rb = results[2 * k], results[2 * k + 1]
        for r in (ra, rb):
            for asp, det in r.diffs:
                if asp in ("verdict", "fileset", "registry"):
                    out["breaks"].append(dict(aspect=asp, detail=det, case=props.summarise_case(r.case)))
        ha, hb = P.file_hashes(ra.h), P.file_hashes(rb.h)
        dist["%s/%s" % (ra.hv[0], rb.hv[0])] += 1
        for a_ in applied or []:
            dist["rw:" + a_] += 1
        same_text = ra.case["files"] == rb.case["files"]
        if ra.hv[0] != rb.hv[0] or (ra.hv[0] == "ok" and ha != hb):
            out["failures"].append(dict(
                clause="C20.identical_output", rewrites=applied, ptr=ra.case["ptr"],
                detail="rewrites %s: original %s, rewritten %s%s" % (applied, ra.hv[0], rb.hv[0],
                                                                       "" if ha == hb else "; output bytes differ"),
                original=ra.case["files"], rewritten=rb.case["files"]))
        key = props.sha_files(ra.case["files"]) + props.sha_files(rb.case["files"])
        if ra.hv[0] == "ok" and not same_text and key not in seen:
            seen.add(key)
            nontrivial += 1
        if replay:
            print("replay: original %s, rewritten %s, hashes %s vs %s" % (ra.hv[0], rb.hv[0], ha, hb))
    out["distinct_nontrivial"] = nontrivial
    out["distribution"] = dict(dist)
    out["samples"] = [dict(rewrites=meta[k][0], original=results[2 * k].case["files"], rewritten=results[2 * k + 1].case["files"])
                      for k in range(min(3, len(meta)))]
    return out
