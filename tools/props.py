"""Per-property configuration: generator profile, correspondence aspects, monitors, non-triviality
rule; plus the generic runner and the known-findings matcher."""
import collections
import hashlib
import json
import os
import random

import sx
import gen
import engine
import pylayout
import pyxlib as P

VERIF = P.VERIF

TRUSTED_BASE = [
    "Coq 8.16.1 kernel (coqc, full .vo build; vm_compute in examples and case evaluation; no native_compute)",
    "axioms: none (every property theorem prints 'Closed under the global context')",
    "hand-written Gallina model of pyxis (coq/theories: Grammar, Sem, Emit) -- tied to /repo by the correspondence check of this run",
    "extraction: ExtrOcamlBasic + ExtrOcamlString (ascii->char, string->char list); numbers stay positive/N/Z; OCaml 4.13.1; ocaml/main.ml line reader",
    "Rust harness (harness/): syn-based structuring of the emitted files, S-expression printers, schedule hook cfg(pyxis_verif)",
    "spec side RustLayout.v is a transcription of the Rust Reference's repr(C)/packed/align rules, validated against rustc by the layout oracle, not proved",
    "Python tooling: generators, aspect diff (tools/corr.py), monitors (tools/props.py, tools/pylayout.py)",
]
COMMON_ASSUMPTIONS = [
    "theorems are about the Gallina model; the correspondence check of this run compared model and implementation on the generated inputs only",
    "integer literals of the AST are within isize / usize (what the real parser can produce)",
]


def sha_files(files):
    h = hashlib.sha256()
    for k in sorted(files):
        h.update(k.encode())
        h.update(b"\0")
        h.update(files[k].encode("utf-8", errors="replace"))
        h.update(b"\0")
    return h.hexdigest()[:16]


# ------------------------------------------------------------------------------------------------
# corpus


def load_corpus(names):
    """corpus/<name>/<case>/**.pyxis (+ meta.json)"""
    cases = []
    for name in names:
        base = os.path.join(VERIF, "corpus", name)
        if not os.path.isdir(base):
            continue
        for cname in sorted(os.listdir(base)):
            cdir = os.path.join(base, cname)
            if not os.path.isdir(cdir):
                continue
            files = {}
            for root, _, fns in os.walk(cdir):
                for fn in fns:
                    if fn.endswith(".pyxis"):
                        full = os.path.join(root, fn)
                        files[os.path.relpath(full, cdir)] = open(full, encoding="utf-8", errors="replace").read()
            meta = {}
            mp = os.path.join(cdir, "meta.json")
            if os.path.exists(mp):
                meta = json.load(open(mp))
            for ptr in meta.get("ptrs", [4, 8]):
                cases.append(dict(id="corpus/%s/%s@%d" % (name, cname, ptr), ptr=ptr, schedule=[], files=files,
                                  exp=None, meta=meta, corpus=True))
    return cases


# ------------------------------------------------------------------------------------------------
# monitors: evaluated on the implementation's output only


def externs_of(res):
    out = {}
    for it in sx.field(res.h, "registry") or []:
        # (item (path ..) cat kind size align)
        if it[2] == "extern":
            out[tuple(sx.qtext(s) for s in it[1][1:])] = (int(it[4]), int(it[5]))
    return out


def registry_of(res):
    out = {}
    for it in sx.field(res.h, "registry") or []:
        out[tuple(sx.qtext(s) for s in it[1][1:])] = (it[2], it[3], int(it[4]), int(it[5]))
    return out


def crate_of(res):
    return pylayout.Crate(res.hfiles, res.case.get("ptr", 4), externs_of(res))


def uses_void_by_value(files):
    """F9 class: a field (or array element) of type void by value"""
    import re
    for text in files.values():
        if re.search(r":\s*(\[\s*)*void\b", text):
            return True
    return False


def mon_c01(res):
    """declared addresses are the offsets the Reference's algorithm gives the emitted struct"""
    fails = []
    exp = res.case.get("exp")
    if res.hv[0] != "ok" or not exp:
        return fails
    crate = crate_of(res)
    for tpath, t in exp["types"].items():
        path = tuple(tpath.split("::"))
        try:
            size, align, fields = crate.item_layout(path)
        except pylayout.LayoutError as e:
            fails.append(dict(clause="C01.struct_missing", detail="%s: %s" % (tpath, e)))
            continue
        offs = {n: o for n, o, _ in fields}
        for (fname, off, fsize, ttext, explicit, ignored) in t["fields"]:
            if ignored:
                if fname in offs:
                    fails.append(dict(clause="C01.zero_array_present", detail="%s.%s" % (tpath, fname)))
                continue
            if fname not in offs:
                fails.append(dict(clause="C01.field_missing", detail="%s.%s" % (tpath, fname)))
            elif offs[fname] != off:
                fails.append(dict(clause="C01.offset", detail="%s.%s: declared/expected offset %d, compiled offset %d"
                                  % (tpath, fname, off, offs[fname])))
        # no two fields overlap and offsets are non-decreasing in declaration order
        end = 0
        for n, o, s in fields:
            if o < end:
                fails.append(dict(clause="C01.overlap", detail="%s.%s at %d before end %d" % (tpath, n, o, end)))
            end = o + s
        if t.get("own_vftable") and (not fields or fields[0][0] != "vftable" or fields[0][1] != 0):
            fails.append(dict(clause="C01.vftable_first", detail=tpath))
    return fails


def mon_c02(res):
    """resolved size/alignment (as the registry reports them) = layout of the emitted item"""
    fails = []
    if res.hv[0] != "ok":
        return fails
    crate = crate_of(res)
    reg = registry_of(res)
    exp = res.case.get("exp") or {"types": {}, "enums": {}}
    for path, (cat, kind, size, align) in reg.items():
        if cat != "defined":
            continue
        try:
            s, a, _ = crate.item_layout(path)
        except pylayout.LayoutError as e:
            fails.append(dict(clause="C02.item_missing", detail="%s: %s" % ("::".join(path), e)))
            continue
        if (s, a) != (size, align):
            fails.append(dict(clause="C02.size_align", detail="%s: pyxis resolved (%d,%d), emitted item lays out as (%d,%d)"
                              % ("::".join(path), size, align, s, a)))
        t = exp["types"].get("::".join(path))
        if t and (t["size"], t["align"]) != (size, align):
            fails.append(dict(clause="C02.declared", detail="%s: description says (%s,%s), resolved (%d,%d)"
                              % ("::".join(path), t["size"], t["align"], size, align)))
    # emitted size checks carry the resolved size
    for rel, f in res.hfiles.items():
        if f is None or f[0] != "file":
            continue
        mod = tuple(rel[:-3].split("/"))
        for it in f[2:]:
            if isinstance(it, list) and it[0] == "fn" and str(it[4]).endswith("_size_check") and str(it[4]).startswith("_"):
                name = str(it[4])[1:-len("_size_check")]
                body = sx.show(it[-1])
                import re
                m = re.search(r"\(bracket u8 ; \(i (\d+) -\)\)", body)
                r = reg.get(mod + (name,))
                if m and r and int(m.group(1)) != r[2]:
                    fails.append(dict(clause="C02.size_check_literal", detail="%s::%s: literal %s, resolved %d"
                                      % ("::".join(mod), name, m.group(1), r[2])))
    return fails


# ------------------------------------------------------------------------------------------------
# property table

STRUCT_PROFILE = dict(p_vftable=0.25, p_base=0.3, p_impl=0.2, enums=(0, 2), externs=(0, 2), fields=(1, 7),
                      p_addr=0.45, p_gap=0.25, p_size=0.35, p_align=0.2, p_packed=0.15, p_user_field=0.45,
                      p_array=0.25, extern_values=(0, 0), p_backend=0.0)

PROPS = {
    "C01": dict(
        profile=STRUCT_PROFILE, n=(400, 6000), corpus=["common", "C01"],
        aspects=["verdict", "items", "fields", "field_types", "repr", "registry"],
        monitors=[mon_c01],
        nontrivial=lambda res: res.hv[0] == "ok" and res.case.get("exp") and any(
            sum(1 for f in t["fields"] if not f[5]) >= 2 and any(f[4] for f in t["fields"])
            for t in res.case["exp"]["types"].values()),
        rule="grammar-directed multi-module inputs built from a consistent layout (gen.py, STRUCT profile) plus one "
             "near-miss per ~12% of inputs; distinct = distinct file contents; non-trivial = accepted, some type has "
             ">= 2 named fields and >= 1 explicit address",
        kf_filter=lambda case: uses_void_by_value(case["files"]),
    ),
    "C02": dict(
        profile=dict(STRUCT_PROFILE, p_user_field=0.6, enums=(1, 3), externs=(0, 2), p_vftable=0.35),
        n=(400, 6000), corpus=["common", "C02"],
        aspects=["verdict", "registry", "repr", "size_check", "enum_repr", "fields", "field_types", "items"],
        monitors=[mon_c02],
        nontrivial=lambda res: res.hv[0] == "ok" and len(registry_of(res)) >= 3,
        rule="as C01, weighted towards nesting (user-typed fields, arrays of types, enums over all integer bases, "
             "extern types, vftable structs); non-trivial = accepted with >= 3 registry items",
        kf_filter=lambda case: uses_void_by_value(case["files"]),
    ),
}


NOT_YET = {}

import c03  # noqa: E402
PROPS["C03"] = dict(
    runner=c03.runner, aspects=["verdict"], n=(0, 0),
    rule="exhaustive enumeration of single-type descriptions over built-in field types on the bound stated in "
         "`bound`, plus seeded random larger descriptions; every description is judged by the real pyxis "
         "(in-process API), by the Coq spec realisableb and by the arithmetic core acceptb (both extracted), and a "
         "sample of 3000 also by the full model; non-trivial = >= 1 field and (accepted, or an address or a size is written)",
    level_text="Proved in Coq for all field lists, numeric values and pointer sizes: the arithmetic core of the acceptance "
               "decision (C03Core.accept: resolve_regions' placement, the size padding and the alignment checks, incl. the power-of-two "
               "check) accepts exactly the realisable descriptions (C03Core.realisable, written from the property text). "
               "The implementation's own verdict is compared with the *spec* (realisableb, reflected in Coq) on every "
               "enumerated description -- exhaustively on the stated small scope -- so the check does not go through the model at all for the iff; "
               "the refinement model -> core is checked on a sample, not proved (theorem name carries _partial).",
    level_note="Trusted: Coq kernel; the spec C03Core.realisable as the reading of the property text (two interpretations fixed in DESIGN.md section 7: "
               "zero-length arrays keep their place but are not members; 'sole member' counts gaps); sizes/alignments of built-in types per pointer width are inputs "
               "computed by tools/c03.py; field alignments are powers of two (wf_fields).",
    technique="Coq proof of accept <-> realisable on the arithmetic core; exhaustive small-scope + random comparison of the real verdict with the reflected spec",
)

PROPS["C01"].update(
    level_text="Proved in Coq for every registry state and every description: when the model's type_build accepts, the emitted "
               "struct laid out by the Rust Reference's repr(C)/packed algorithm (RustLayout.v) has every region at the prefix "
               "sum of the preceding region sizes, with no compiler padding, size and alignment as resolved "
               "(C01 theorems in coq/Properties/C01.v). The model is tied to /repo on every run by the correspondence "
               "check (same inputs through real pyxis and the extracted model, struct fields/types/repr compared) and "
               "the declared offsets are re-derived from the implementation's own emitted files by an independent layout "
               "calculator (monitor).",
    level_note="Trusted: Coq kernel; the hand-written model (validated by correspondence on generated inputs only); RustLayout.v as "
               "a transcription of the Rust Reference (validated against rustc by the layout oracle in the thorough tier); "
               "by-value void fields are a known finding class (F9) and excluded.",
)
PROPS["C02"].update(
    level_text="Proved in Coq (coq/Properties/C02.v): for every accepted struct attempt the resolved size is the sum of the "
               "region sizes, equals a declared #[size(N)], and the Rust Reference layout of the emitted "
               "repr(C, align(A)) / repr(C, packed) struct has exactly the resolved size and alignment. Correspondence compares the "
               "registry (size, alignment per item, read through the public API), repr attributes and size-check literals; "
               "the monitor recomputes every emitted item's layout from the implementation's files.",
    level_note="Trusted: Coq kernel; hand-written model validated by the correspondence of this run; RustLayout.v vs rustc "
               "validated by oracle, not proved; field sizes are the registry's (nested items by induction over resolution order).",
)

# ------------------------------------------------------------------------------------------------
# findings


def load_findings():
    p = os.path.join(VERIF, "known_findings.json")
    if not os.path.exists(p):
        return []
    return json.load(open(p)).get("findings", [])


def match_finding(findings, pid, fail):
    """a failure is a known finding when a listed *open* finding of this property names its class"""
    for f in findings:
        if f.get("status") != "finding" or pid not in f.get("properties", []):
            continue
        if fail.get("kf") and fail["kf"] == f.get("class"):
            return f
    return None


# ------------------------------------------------------------------------------------------------
# runner


def gen_cases(pid, prop, n, seed):
    cases = []
    base = int(hashlib.sha256(("%s/%d" % (pid, seed)).encode()).hexdigest()[:12], 16)
    for i in range(n):
        ptr = 4 if i % 2 == 0 else 8
        files, exp = gen.generate(base + i, ptr, prop.get("profile"))
        cases.append(dict(id="%s-g%d" % (pid, i), ptr=ptr, schedule=[], files=files, exp=exp, gseed=base + i))
    return cases


def summarise_case(case):
    return dict(id=case["id"], ptr=case.get("ptr"), schedule=case.get("schedule"),
                files=case.get("files"), gseed=case.get("gseed"))


def run_property(pid, prop, tier, seed, scratch, replay=None):
    custom = prop.get("runner")
    if custom:
        return custom(pid, prop, tier, seed, scratch, replay)
    n = prop["n"][0 if tier == "quick" else 1]
    if replay:
        doc = json.load(open(os.path.join(VERIF, replay) if not os.path.isabs(replay) else replay))
        c = doc.get("case") or {}
        cases = [dict(id=c.get("id", "replay"), ptr=c.get("ptr", 4), schedule=c.get("schedule") or [],
                      files=c.get("files", {}), exp=None)]
    else:
        cases = load_corpus(prop.get("corpus", ["common"])) + gen_cases(pid, prop, n, seed)
    results = engine.run(cases, scratch)
    out = dict(evaluations=len(results), failures=[], breaks=[], samples=[], notes=[])
    seen = set()
    nontrivial = 0
    dist = collections.Counter()
    aspects = set(prop["aspects"])
    other_aspect_diffs = collections.Counter()
    fullfile_equal = 0
    kf_filter = prop.get("kf_filter")
    for r in results:
        dist["impl_" + r.hv[0]] += 1
        if r.case.get("exp") and r.case["exp"].get("miss"):
            dist["near_miss:" + r.case["exp"]["miss"]] += 1
        if r.m is None:
            dist["no_model_run(parse error)"] += 1
        if r.hv[0] in ("hang", "crash", "missing"):
            out["breaks"].append(dict(aspect="harness", detail="implementation did not answer: %s" % r.hv[0],
                                      case=summarise_case(r.case)))
            continue
        if not r.diffs and r.m is not None:
            fullfile_equal += 1
        for asp, det in r.diffs:
            if asp in aspects:
                out["breaks"].append(dict(aspect=asp, detail=det, case=summarise_case(r.case)))
            else:
                other_aspect_diffs[asp] += 1
        in_kf_class = bool(kf_filter and kf_filter(r.case))
        for mon in prop.get("monitors", []):
            for f in mon(r):
                f = dict(f)
                f["case"] = summarise_case(r.case)
                if in_kf_class:
                    f["kf"] = prop.get("kf_class", "KF_void_value")
                out["failures"].append(f)
        try:
            nt = bool(prop["nontrivial"](r))
        except Exception:
            nt = False
        h = sha_files(r.case["files"]) + "@%s" % r.case.get("ptr")
        if nt and h not in seen:
            seen.add(h)
            nontrivial += 1
            if len(out["samples"]) < 3 and not r.case.get("corpus"):
                out["samples"].append(dict(id=r.case["id"], ptr=r.case.get("ptr"), files=r.case["files"],
                                           impl_verdict=r.hv[0], model_verdict=r.mv[0] if r.mv else None))
        if replay:
            print("replay: impl verdict %s, model verdict %s" % (r.hv, r.mv))
            for asp, det in r.diffs:
                print("  diff [%s] %s" % (asp, det[:500]))
    out["distinct_nontrivial"] = nontrivial
    out["distribution"] = dict(dist)
    out["distribution"]["diffs_in_other_aspects"] = dict(other_aspect_diffs)
    out["fullfile_equal"] = fullfile_equal
    if not out["samples"] and results:
        r = results[0]
        out["samples"].append(dict(id=r.case["id"], ptr=r.case.get("ptr"), files=r.case["files"], impl_verdict=r.hv[0]))
    return out
