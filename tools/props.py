"""Per-property configuration: generator profile, correspondence aspects, monitors, non-triviality
rule; plus the generic runner and the known-findings matcher."""
import collections
import hashlib
import json
import os
import random
import re

import sx
import gen
import engine
import pylayout
import corr
import pyxlib as P

VERIF = P.VERIF

TRUSTED_BASE = [
    "Coq 8.16.1 kernel (coqc, full .vo build; vm_compute in examples and case evaluation; no native_compute)",
    "axioms: none (every property theorem prints 'Closed under the global context')",
    "hand-written Gallina model of pyxis (coq/theories: Grammar, Sem, Emit) -- tied to /repo by the correspondence check of this run",
    "extraction: ExtrOcamlBasic + ExtrOcamlString (ascii->char, string->char list); numbers stay positive/N/Z; OCaml 4.13.1; ocaml/main.ml line reader",
    "Rust harness (harness/): syn-based structuring of the emitted files, S-expression printers, schedule hook cfg(pyxis_verif)",
    "spec side RustLayout.v is a transcription of the Rust Reference's repr(C)/packed/align rules, validated against rustc by the layout oracle, not proved",
    "Python tooling: generators, aspect diff (tools/corr.py), monitors (tools/props.py, tools/pylayout.py)",
]
COMMON_ASSUMPTIONS = [
    "theorems are about the Gallina model; the correspondence check of this run compared model and implementation on the generated inputs only",
    "integer literals of the AST are within isize / usize (what the real parser can produce)",
]


def sha_files(files):
    h = hashlib.sha256()
    for k in sorted(files):
        h.update(k.encode())
        h.update(b"\0")
        h.update(files[k].encode("utf-8", errors="replace"))
        h.update(b"\0")
    return h.hexdigest()[:16]


# ------------------------------------------------------------------------------------------------
# corpus


def load_corpus(names):
    """corpus/<name>/<case>/**.pyxis (+ meta.json)"""
    cases = []
    for name in names:
        base = os.path.join(VERIF, "corpus", name)
        if not os.path.isdir(base):
            continue
        for cname in sorted(os.listdir(base)):
            cdir = os.path.join(base, cname)
            if not os.path.isdir(cdir):
                continue
            files = {}
            for root, _, fns in os.walk(cdir):
                for fn in fns:
                    if fn.endswith(".pyxis"):
                        full = os.path.join(root, fn)
                        files[os.path.relpath(full, cdir)] = open(full, encoding="utf-8", errors="replace").read()
            meta = {}
            mp = os.path.join(cdir, "meta.json")
            if os.path.exists(mp):
                meta = json.load(open(mp))
            for ptr in meta.get("ptrs", [4, 8]):
                cases.append(dict(id="corpus/%s/%s@%d" % (name, cname, ptr), ptr=ptr, schedule=[], files=files,
                                  exp=None, meta=meta, corpus=True))
    return cases


# ------------------------------------------------------------------------------------------------
# monitors: evaluated on the implementation's output only


def externs_of(res):
    out = {}
    for it in sx.field(res.h, "registry") or []:
        # (item (path ..) cat kind size align)
        if it[2] == "extern":
            out[tuple(sx.qtext(s) for s in it[1][1:])] = (int(it[4]), int(it[5]))
    return out


def registry_of(res):
    out = {}
    for it in sx.field(res.h, "registry") or []:
        out[tuple(sx.qtext(s) for s in it[1][1:])] = (it[2], it[3], int(it[4]), int(it[5]))
    return out


def crate_of(res):
    return pylayout.Crate(res.hfiles, res.case.get("ptr", 4), externs_of(res))


def uses_void_by_value(files):
    """F9 class: a field (or array element) of type void by value"""
    import re
    for text in files.values():
        if re.search(r":\s*(\[\s*)*void\b", text):
            return True
    return False


def mon_c01(res):
    """declared addresses are the offsets the Reference's algorithm gives the emitted struct"""
    fails = []
    exp = res.case.get("exp")
    if res.hv[0] != "ok" or not exp:
        return fails
    crate = crate_of(res)
    for tpath, t in exp["types"].items():
        path = tuple(tpath.split("::"))
        try:
            size, align, fields = crate.item_layout(path)
        except pylayout.LayoutError as e:
            fails.append(dict(clause="C01.struct_missing", detail="%s: %s" % (tpath, e)))
            continue
        offs = {n: o for n, o, _ in fields}
        for (fname, off, fsize, ttext, explicit, ignored) in t["fields"]:
            if ignored:
                if fname in offs:
                    fails.append(dict(clause="C01.zero_array_present", detail="%s.%s" % (tpath, fname)))
                continue
            if fname not in offs:
                fails.append(dict(clause="C01.field_missing", detail="%s.%s" % (tpath, fname)))
            elif offs[fname] != off:
                fails.append(dict(clause="C01.offset", detail="%s.%s: declared/expected offset %d, compiled offset %d"
                                  % (tpath, fname, off, offs[fname])))
        # no two fields overlap and offsets are non-decreasing in declaration order
        end = 0
        for n, o, s in fields:
            if o < end:
                fails.append(dict(clause="C01.overlap", detail="%s.%s at %d before end %d" % (tpath, n, o, end)))
            end = o + s
        if t.get("own_vftable") and (not fields or fields[0][0] != "vftable" or fields[0][1] != 0):
            fails.append(dict(clause="C01.vftable_first", detail=tpath))
    return fails


def mon_c02(res):
    """resolved size/alignment (as the registry reports them) = layout of the emitted item"""
    fails = []
    if res.hv[0] != "ok":
        return fails
    crate = crate_of(res)
    reg = registry_of(res)
    exp = res.case.get("exp") or {"types": {}, "enums": {}}
    for path, (cat, kind, size, align) in reg.items():
        if cat != "defined":
            continue
        try:
            s, a, _ = crate.item_layout(path)
        except pylayout.LayoutError as e:
            fails.append(dict(clause="C02.item_missing", detail="%s: %s" % ("::".join(path), e)))
            continue
        if (s, a) != (size, align):
            fails.append(dict(clause="C02.size_align", detail="%s: pyxis resolved (%d,%d), emitted item lays out as (%d,%d)"
                              % ("::".join(path), size, align, s, a)))
        t = exp["types"].get("::".join(path))
        if t and (t["size"], t["align"]) != (size, align):
            fails.append(dict(clause="C02.declared", detail="%s: description says (%s,%s), resolved (%d,%d)"
                              % ("::".join(path), t["size"], t["align"], size, align)))
    # emitted size checks carry the resolved size
    for rel, f in res.hfiles.items():
        if f is None or f[0] != "file":
            continue
        mod = tuple(rel[:-3].split("/"))
        for it in f[2:]:
            if isinstance(it, list) and it[0] == "fn" and str(it[4]).endswith("_size_check") and str(it[4]).startswith("_"):
                name = str(it[4])[1:-len("_size_check")]
                body = sx.show(it[-1])
                import re
                m = re.search(r"\(bracket u8 ; \(i (\d+) -\)\)", body)
                r = reg.get(mod + (name,))
                if m and r and int(m.group(1)) != r[2]:
                    fails.append(dict(clause="C02.size_check_literal", detail="%s::%s: literal %s, resolved %d"
                                      % ("::".join(mod), name, m.group(1), r[2])))
    return fails


def file_of_type(res, tpath):
    """(file sexp, type name) for a '::'-joined item path"""
    parts = tpath.split("::")
    rel = "/".join(parts[:-1]) + ".rs"
    return res.hfiles.get(rel), parts[-1]


def methods_of(f, tname):
    """{name: fn sexp} over all inherent impls of tname in file f"""
    out = {}
    if f is None or f[0] != "file":
        return out
    for it in f[2:]:
        if isinstance(it, list) and it[0] == "impl" and it[2] == "notrait" and sx.show(it[3]) == "(self %s)" % tname:
            for m in it[4:]:
                if isinstance(m, list) and m[0] == "fn":
                    out.setdefault(str(m[4]), m)
    return out


def struct_of(f, name):
    if f is None or f[0] != "file":
        return None
    for it in f[2:]:
        if isinstance(it, list) and it[0] in ("struct", "enum") and it[3] == name:
            return it
    return None


def fn_parts(m):
    d = {x[0]: x for x in m[5:] if isinstance(x, list)}
    params = d.get("params", ["params"])[1:]
    return dict(vis=m[2], quals=m[3], name=str(m[4]), params=params, ret=d.get("ret", ["ret"])[1:],
                body=d.get("body", ["body"])[1:], attrs=m[1])


def params_shape(params):
    """['&self' | '&mut self' | arg name ...]"""
    out = []
    for p in params:
        if p == "self":
            out.append("&self")
        elif p == "mutself":
            out.append("&mut self")
        elif isinstance(p, list) and p[0] == "arg":
            out.append(sx.show(p[1][1]) if len(p[1]) == 2 else sx.show(p[1]))
        else:
            out.append(sx.show(p))
    return out


import re as _re


def check_wrapper_against(desc, m, clause, tpath, fails, body_kind):
    """desc: generator's function descriptor; m: emitted fn sexp"""
    fp = fn_parts(m)
    where = "%s::%s" % (tpath, desc["name"])
    want = ([desc["selfkind"]] if desc["selfkind"] else []) + [a for a, _ in desc["args"]]
    if params_shape(fp["params"]) != want:
        fails.append(dict(clause=clause + ".params", detail="%s: emitted %s, declared %s" % (where, params_shape(fp["params"]), want)))
    if bool(fp["ret"]) != bool(desc["ret"]):
        fails.append(dict(clause=clause + ".ret", detail="%s: return type %s, declared %s" % (where, sx.show(fp["ret"]), desc["ret"])))
    if (fp["vis"] == "pub") != desc["pub"]:
        fails.append(dict(clause=clause + ".vis", detail=where))
    # pointer structure of every parameter and of the return type: the chain of const / mut qualifiers as declared
    quals = lambda text: _re.findall(r"\*\s*(const|mut)\b", text)
    got_q = [quals(" ".join(sx.show(y) for y in p_[2][1:])) for p_ in fp["params"] if isinstance(p_, list) and p_[0] == "arg" and len(p_) > 2]
    want_q = [quals(t_) for _, t_ in desc["args"]]
    if len(got_q) == len(want_q) and got_q != want_q:
        fails.append(dict(clause=clause + ".param_pointers", detail="%s: pointer qualifiers %s, declared %s" % (where, got_q, want_q)))
    if fp["ret"] and desc["ret"] and quals(" ".join(sx.show(y) for y in fp["ret"])) != quals(desc["ret"]):
        fails.append(dict(clause=clause + ".ret_pointers", detail="%s: returns %s, declared %s" % (where, " ".join(sx.show(y) for y in fp["ret"]), desc["ret"])))
    body = " ".join(sx.show(x) for x in fp["body"])
    call_want = []
    if desc["selfkind"] == "&self":
        call_want.append("self as * const Self as _")
    elif desc["selfkind"] == "&mut self":
        call_want.append("self as * mut Self as _")
    call_want += [a for a, _ in desc["args"]]
    if body_kind == "address":
        mm = _re.search(r"transmute \(paren \(i (\d+) -\) as usize\) ; f \(paren ?(.*)\)$", body)
        if not mm:
            fails.append(dict(clause=clause + ".body_shape", detail="%s: %s" % (where, body[:300])))
            return
        if int(mm.group(1)) != desc["address"]:
            fails.append(dict(clause=clause + ".address", detail="%s: calls %s, declared %s" % (where, mm.group(1), desc["address"])))
        if mm.group(2).strip() != " , ".join(call_want):
            fails.append(dict(clause=clause + ".call_args", detail="%s: passes (%s), declared (%s)" % (where, mm.group(2), " , ".join(call_want))))
        if body.count("transmute") != 1 or body.count("f (paren") != 1:
            fails.append(dict(clause=clause + ".single_call", detail=where))
        abi = _re.search(r'unsafe extern \(s "([^"]*)"\) fn \(paren ?(.*?)\)(?: - >| =)', body)
        if not abi or abi.group(1) != desc["cc"]:
            fails.append(dict(clause="C16.wrapper_abi", detail="%s: %s, expected %s" % (where, abi.group(1) if abi else None, desc["cc"])))
        lam_want = []
        if desc["selfkind"] == "&self":
            lam_want.append("this : * const Self")
        elif desc["selfkind"] == "&mut self":
            lam_want.append("this : * mut Self")
        if abi:
            lam = [x.strip() for x in _split_top(abi.group(2))]
            names = [x.split(" : ")[0] + (" : " + x.split(" : ", 1)[1] if x.startswith("this") else "") for x in lam if x]
            want_names = lam_want + [a for a, _ in desc["args"]]
            if names != want_names:
                fails.append(dict(clause=clause + ".lambda", detail="%s: fn pointer takes %s, declared %s" % (where, names, want_names)))
    elif body_kind == "vftable":
        mm = _re.search(r"^let f = std : : ptr : : addr_of ! \(paren \(paren \* self \. vftable \(paren\)\) \. (\w+)\) \. read \(paren\) ; f \(paren ?(.*)\)$", body)
        if not mm:
            fails.append(dict(clause=clause + ".body_shape", detail="%s: %s" % (where, body[:300])))
            return
        if mm.group(1) != desc["name"]:
            fails.append(dict(clause=clause + ".slot_name", detail="%s reads slot %s" % (where, mm.group(1))))
        if mm.group(2).strip() != " , ".join(call_want):
            fails.append(dict(clause=clause + ".call_args", detail="%s: passes (%s), declared (%s)" % (where, mm.group(2), " , ".join(call_want))))


def _split_top(s):
    """split a token string on top-level ' , ' (parentheses nest)"""
    out, depth, cur = [], 0, []
    for tok in s.split(" "):
        if tok.startswith("("):
            depth += tok.count("(")
        if tok.endswith(")"):
            depth -= tok.count(")")
        if tok == "," and depth == 0:
            out.append(" ".join(cur))
            cur = []
        else:
            cur.append(tok)
    out.append(" ".join(cur))
    return out


def mon_c05(res):
    fails = []
    exp = res.case.get("exp")
    if res.hv[0] != "ok" or not exp:
        return fails
    for tpath, t in exp["types"].items():
        f, tname = file_of_type(res, tpath)
        ms = methods_of(f, tname)
        for d in t["impls"]:
            if d["name"].startswith("_"):
                continue
            m = ms.get(d["name"])
            if m is None:
                fails.append(dict(clause="C05.method_missing", detail="%s::%s" % (tpath, d["name"])))
                continue
            check_wrapper_against(d, m, "C05", tpath, fails, "address")
    return [x for x in fails if x["clause"].startswith("C05")]


def mon_c05_scoped(res):
    """the declared signature names types through the scoping rules: on the scoping inputs (gen_special.gen_c11: the
    same short names defined in several modules) the wrapper's parameter and return types must be the definitions
    the rules select"""
    fails = []
    exp = res.case.get("exp")
    if not exp or "c11" not in exp or res.hv[0] != "ok" or not exp["c11"]["resolvable"]:
        return fails
    c = exp["c11"]
    f, tname = file_of_type(res, c["obs"])
    mod = tuple(c["obs"].split("::")[:-1])
    m = methods_of(f, tname).get("probe")
    if m is None:
        return [dict(clause="C05.method_missing", detail=c["obs"] + "::probe")]
    fp = fn_parts(m)
    want = tuple(c["arg"][1])
    got = [path_of_type_tokens(p_[2][1:], mod) for p_ in fp["params"] if isinstance(p_, list) and p_[0] == "arg"]
    got.append(path_of_type_tokens(fp["ret"], mod))
    if any(g != want for g in got):
        fails.append(dict(clause="C05.signature_binding", detail="%s::probe(p: *const %s) -> *mut %s emitted with %s, the name binds to %s"
                          % (c["obs"], c["arg"][0], c["arg"][0], got, want)))
    return fails


def vftable_fields(res, tpath):
    """[(name, vis, type token string)] of the emitted <T>Vftable struct, or None"""
    f, tname = file_of_type(res, tpath)
    st = struct_of(f, tname + "Vftable")
    if st is None:
        return None
    return [(str(x[3]), x[2], " ".join(sx.show(y) for y in x[4][1:])) for x in st[4:] if isinstance(x, list) and x[0] == "field"]


def mon_c16(res):
    fails = []
    exp = res.case.get("exp")
    if res.hv[0] != "ok" or not exp:
        return fails
    vf_desc = res.case.get("vf_desc") or {}
    for tpath, t in exp["types"].items():
        f, tname = file_of_type(res, tpath)
        ms = methods_of(f, tname)
        for d in t["impls"]:
            m = ms.get(d["name"])
            if m is not None:
                tmp = []
                check_wrapper_against(d, m, "C05", tpath, tmp, "address")
                fails.extend(x for x in tmp if x["clause"].startswith("C16"))
        if t.get("declared_vft"):
            fields = vftable_fields(res, tpath)
            if fields is None:
                fails.append(dict(clause="C16.vftable_struct_missing", detail=tpath))
                continue
            descs = t.get("slot_descs") or []
            for k, (name, vis, ty) in enumerate(fields):
                abi = _re.match(r'unsafe extern \(s "([^"]*)"\) fn', ty)
                want = None
                if k < len(descs) and descs[k] is not None:
                    want = descs[k]["cc"]
                elif name.startswith("_vfunc_"):
                    want = "thiscall"
                if want is not None and (not abi or abi.group(1) != want):
                    fails.append(dict(clause="C16.slot_abi", detail="%s slot %d (%s): %s, expected %s"
                                      % (tpath, k, name, abi.group(1) if abi else ty[:60], want)))
    return fails


def parse_disc(toks):
    """(value, cast) of an emitted discriminant expression: [-] (i N suffix) as _"""
    ts = list(toks)
    neg = False
    if ts and ts[0] == "-":
        neg = True
        ts = ts[1:]
    if not ts or not (isinstance(ts[0], list) and ts[0][0] == "i"):
        return None
    v = int(ts[0][1])
    return (-v if neg else v, ts[0][2], [str(x) for x in ts[1:]])


def mon_c08(res):
    fails = []
    exp = res.case.get("exp")
    if res.hv[0] != "ok" or not exp:
        return fails
    reg = registry_of(res)
    for epath, e in exp["enums"].items():
        f, ename = file_of_type(res, epath)
        it = struct_of(f, ename)
        if it is None or it[0] != "enum":
            fails.append(dict(clause="C08.enum_missing", detail=epath))
            continue
        at = corr.split_attrs(it[1])
        if at["repr"] != e["base"]:
            fails.append(dict(clause="C08.repr", detail="%s: repr(%s), declared %s" % (epath, at["repr"], e["base"])))
        r = reg.get(tuple(epath.split("::")))
        if r and (r[2], r[3]) != gen.PRIMS[e["base"]]:
            fails.append(dict(clause="C08.size", detail="%s: resolved %s, base type %s" % (epath, r[2:], gen.PRIMS[e["base"]])))
        variants = [v for v in it[4:] if isinstance(v, list) and v[0] == "variant"]
        got = []
        lo, hi = gen.INT_RANGE[e["base"]]
        for v in variants:
            d = parse_disc(v[3][1:])
            got.append((str(v[2]), d[0] if d else None))
            if d is None or d[2] != ["as", "_"] and d[2] != []:
                fails.append(dict(clause="C08.disc_shape", detail="%s::%s: %s" % (epath, v[2], sx.show(v[3]))))
            elif not (lo <= d[0] <= hi):
                fails.append(dict(clause="C08.out_of_range", kf="KF_discr_out_of_range",
                                  detail="%s::%s = %d does not fit %s" % (epath, v[2], d[0], e["base"])))
        if got != [(n, v) for n, v in e["cases"]]:
            fails.append(dict(clause="C08.values", detail="%s: emitted %s, declared %s" % (epath, got, e["cases"])))
        defaults = [i for i, v in enumerate(variants) if corr.split_attrs(v[1])["default"]]
        want = [e["default"]] if e["default"] is not None else []
        if defaults != want:
            fails.append(dict(clause="C08.default", detail="%s: #[default] at %s, declared %s" % (epath, defaults, want)))
        der = at["derive"] or frozenset()
        if ("Default" in der) != bool(e["defaultable"]):
            fails.append(dict(clause="C08.derive_default", detail=epath))
    return fails


def path_of_type_tokens(ty_tokens, mod):
    """emitted type tokens -> referenced item path tuple (crate-relative), or None"""
    try:
        t = pylayout.parse_type(ty_tokens)
    except pylayout.LayoutError:
        return None
    while t[0] in ("ptr", "array"):
        t = t[2] if t[0] == "ptr" else t[1]
    if t[0] != "path":
        return None
    _, absolute, segs = t
    if absolute:
        return ("::",) + tuple(segs)
    if segs[0] == "crate":
        return tuple(segs[1:])
    return tuple(segs)


def mon_c11(res):
    fails = []
    exp = res.case.get("exp")
    if not exp or "c11" not in exp:
        return fails
    c = exp["c11"]
    if res.hv[0] == "ok" and not c["resolvable"]:
        fails.append(dict(clause="C11.accepted_unresolvable", detail="a name with no binding under the scoping rules was accepted"))
        return fails
    if res.hv[0] != "ok":
        if c["resolvable"]:
            fails.append(dict(clause="C11.rejected_resolvable", detail="every name has a binding under the scoping rules, yet: %s" % str(res.hv[1])[:200]))
        return fails
    f, tname = file_of_type(res, c["obs"])
    st = struct_of(f, tname)
    if st is None:
        return [dict(clause="C11.observer_missing", detail=c["obs"])]
    mod = tuple(c["obs"].split("::")[:-1])
    got = {str(x[3]): path_of_type_tokens(x[4][1:], mod) for x in st[4:] if isinstance(x, list) and x[0] == "field"}
    for fname, name, bind, size in c["fields"]:
        if got.get(fname) != tuple(bind):
            fails.append(dict(clause="C11.binding", detail="%s.%s: name `%s` emitted as %s, scoping rules select %s"
                              % (c["obs"], fname, name, got.get(fname), bind)))
    reg = registry_of(res)
    r = reg.get(tuple(c["obs"].split("::")))
    if r and r[2] != c["total"]:
        fails.append(dict(clause="C11.layout_uses_binding", detail="%s: resolved size %d, sizes of the selected definitions sum to %d" % (c["obs"], r[2], c["total"])))
    ms = methods_of(f, tname)
    m = ms.get("probe")
    if m is None:
        fails.append(dict(clause="C11.probe_missing", detail=c["obs"]))
    else:
        fp = fn_parts(m)
        want = tuple(c["arg"][1])
        for p_ in fp["params"]:
            if isinstance(p_, list) and p_[0] == "arg":
                g = path_of_type_tokens(p_[2][1:], mod)
                if g != want:
                    fails.append(dict(clause="C11.param_binding", detail="probe(p): %s, rules select %s" % (g, want)))
        g = path_of_type_tokens(fp["ret"], mod)
        if g != want:
            fails.append(dict(clause="C11.ret_binding", detail="probe -> %s, rules select %s" % (g, want)))
    return fails


def mon_c04(res):
    fails = []
    exp = res.case.get("exp")
    if res.hv[0] != "ok" or not exp:
        return fails
    ptr = res.case.get("ptr", 4)
    crate = crate_of(res)
    for tpath, t in exp["types"].items():
        descs = t.get("slot_descs") or []
        f, tname = file_of_type(res, tpath)
        ms = methods_of(f, tname)
        if t.get("declared_vft"):
            fields = vftable_fields(res, tpath)
            if fields is None:
                fails.append(dict(clause="C04.vftable_struct_missing", detail=tpath))
                continue
            if len(fields) != len(descs):
                fails.append(dict(clause="C04.table_length", detail="%s: %d slots emitted, %d declared" % (tpath, len(fields), len(descs))))
            for k, (name, vis, ty) in enumerate(fields[:len(descs)]):
                d = descs[k]
                if d is None:
                    if name != "_vfunc_%d" % k or vis != "priv":
                        fails.append(dict(clause="C04.placeholder", detail="%s slot %d is `%s` (%s)" % (tpath, k, name, vis)))
                    elif not ty.startswith('unsafe extern (s "thiscall") fn (paren this : * mut'):
                        fails.append(dict(clause="C04.placeholder_type", detail="%s slot %d: %s" % (tpath, k, ty[:80])))
                elif name != d["name"]:
                    fails.append(dict(clause="C04.slot", detail="%s: slot %d holds `%s`, declared `%s`" % (tpath, k, name, d["name"])))
            try:
                _, _, lay = crate.item_layout(tuple(tpath.split("::")[:-1]) + (tname + "Vftable",))
                for k, (n, off, sz) in enumerate(lay):
                    if off != k * ptr or sz != ptr:
                        fails.append(dict(clause="C04.slot_offset", detail="%sVftable.%s at %d size %d" % (tpath, n, off, sz)))
            except pylayout.LayoutError as e:
                fails.append(dict(clause="C04.vftable_layout", detail="%s: %s" % (tpath, e)))
        if t.get("has_vftable"):
            if "vftable" not in ms:
                fails.append(dict(clause="C04.accessor_missing", detail=tpath))
            for d in descs:
                if d is None or d["name"].startswith("_"):
                    continue
                m = ms.get(d["name"])
                if m is None:
                    fails.append(dict(clause="C04.wrapper_missing", detail="%s::%s" % (tpath, d["name"])))
                    continue
                check_wrapper_against(d, m, "C04", tpath, fails, "vftable")
    return [x for x in fails if x["clause"].startswith("C04")]


def mon_c06(res):
    fails = []
    exp = res.case.get("exp")
    if res.hv[0] != "ok" or not exp:
        return fails
    for tpath, t in exp["types"].items():
        f, tname = file_of_type(res, tpath)
        st = struct_of(f, tname)
        if st is None:
            continue
        fields = [(str(x[3]), x[2], " ".join(sx.show(y) for y in x[4][1:])) for x in st[4:] if isinstance(x, list) and x[0] == "field"]
        names = [n for n, _, _ in fields]
        ms = methods_of(f, tname)
        bf = t.get("base_fields") or []
        first_base_has = bool(bf) and exp["types"].get(bf[0][1], {}).get("has_vftable")
        if first_base_has:
            if "vftable" in names:
                fails.append(dict(clause="C06.own_pointer_despite_base", detail=tpath))
            acc = ms.get("vftable")
            if acc is None:
                fails.append(dict(clause="C06.accessor_missing", detail=tpath))
            else:
                body = " ".join(sx.show(x) for x in fn_parts(acc)["body"])
                # the table type: the type's own <T>Vftable when it has a block, else the one of the nearest first base that has
                want_ty = (tname if t.get("declared_vft") else _vft_owner(exp, tpath).split("::")[-1])
                if not body.startswith("self . %s . vftable (paren) as * const " % bf[0][0]):
                    fails.append(dict(clause="C06.accessor_via_base", detail="%s: %s" % (tpath, body[:200])))
                elif want_ty and not body.endswith(": : %sVftable" % want_ty) and not body.endswith(" %sVftable" % want_ty):
                    fails.append(dict(clause="C06.accessor_type", detail="%s: %s" % (tpath, body[:200])))
            if t.get("declared_vft"):
                mine = vftable_fields(res, tpath) or []
                base = vftable_fields(res, _vft_owner(exp, bf[0][1])) or []
                if len(mine) < len(base) or [n for n, _, _ in mine[:len(base)]] != [n for n, _, _ in base]:
                    fails.append(dict(clause="C06.prefix", detail="%s: derived table %s does not extend base table %s"
                                      % (tpath, [n for n, _, _ in mine], [n for n, _, _ in base])))
                else:
                    for (n, v1, t1), (_, v2, t2) in zip(mine, base):
                        strip = lambda s_: _re.sub(r"this : \* (const|mut) [^,)]*", "this", s_)
                        if strip(t1) != strip(t2):
                            fails.append(dict(clause="C06.slot_signature", detail="%s slot %s: %s vs base %s" % (tpath, n, t1[:120], t2[:120])))
        elif t.get("declared_vft"):
            if not fields or fields[0][0] != "vftable" or fields[0][1] != "priv":
                fails.append(dict(clause="C06.own_pointer_first", detail="%s: fields %s" % (tpath, names[:3])))
            elif not fields[0][2].endswith("%sVftable" % tname) or not fields[0][2].startswith("* const"):
                fails.append(dict(clause="C06.own_pointer_type", detail="%s: %s" % (tpath, fields[0][2])))
            if names.count("vftable") != 1:
                fails.append(dict(clause="C06.single_pointer", detail=tpath))
    return fails


def _vft_owner(exp, tpath):
    """the type whose <T>Vftable struct describes tpath's table (walk first bases while no own block)"""
    seen = 0
    while seen < 20:
        t = exp["types"].get(tpath)
        if not t or t.get("declared_vft") or not t.get("base_fields"):
            return tpath
        tpath = t["base_fields"][0][1]
        seen += 1
    return tpath


def public_assoc(exp, tpath, memo):
    """ordered names of the public associated functions pyxis gives type tpath (injected + own impl)"""
    if tpath in memo:
        return memo[tpath]
    t = exp["types"].get(tpath)
    if t is None:
        return []
    memo[tpath] = []
    used = set(d["name"] if d else "_vfunc_%d" % k for k, d in enumerate(t.get("slot_descs") or []))
    out = []       # (emitted name, field, original name)
    for i, (fname, bpath) in enumerate(t.get("base_fields") or []):
        cands = [n for n, _, _ in public_assoc(exp, bpath, memo)]
        if i > 0:
            bt = exp["types"].get(bpath) or {}
            cands += [d["name"] for d in (bt.get("slot_descs") or []) if d and d["pub"]]
        for g in cands:
            name = g if g not in used else "%s_%s" % (fname, g)
            if name in used:
                memo.setdefault("__collisions__", set()).add(tpath)      # finding F24: the renamed name is taken too
            used.add(name)
            out.append((name, fname, g))
    for d in t["impls"]:
        if d["pub"]:
            out.append((d["name"], None, d["name"]))
        used.add(d["name"])
    memo[tpath] = out
    return out


def assoc_docs(exp, tpath, memo):
    """public_assoc with the documentation each function carries: a forwarded copy keeps the doc of its origin"""
    if tpath in memo:
        return memo[tpath]
    t = exp["types"].get(tpath)
    if t is None:
        return []
    memo[tpath] = []
    used = set(d["name"] if d else "_vfunc_%d" % k for k, d in enumerate(t.get("slot_descs") or []))
    out = []       # (emitted name, field, original name, doc lines)
    for i, (fname, bpath) in enumerate(t.get("base_fields") or []):
        cands = [(n, doc) for n, _, _, doc in assoc_docs(exp, bpath, memo)]
        if i > 0:
            bt = exp["types"].get(bpath) or {}
            cands += [(d["name"], d["doc"]) for d in (bt.get("slot_descs") or []) if d and d["pub"]]
        for g, doc in cands:
            name = g if g not in used else "%s_%s" % (fname, g)
            if name in used:
                memo.setdefault("__collisions__", set()).add(tpath)
            used.add(name)
            out.append((name, fname, g, doc))
    for d in t["impls"]:
        if d["pub"]:
            out.append((d["name"], None, d["name"], d["doc"]))
        used.add(d["name"])
    memo[tpath] = out
    return out


def rename_collides(exp):
    """does the description make the one-step clash renaming of inherited functions produce a name that is taken
    as well (finding F24: two functions of one name are emitted)?  Returns the set of such types."""
    memo = {}
    for tpath in (exp or {}).get("types", {}):
        public_assoc(exp, tpath, memo)
    hit = set(memo.get("__collisions__", set()))
    # a type inheriting from one of them inherits the duplicate as well
    changed = True
    while changed:
        changed = False
        for tpath, t in exp["types"].items():
            if tpath not in hit and any(b in hit for _, b in (t.get("base_fields") or [])):
                hit.add(tpath)
                changed = True
    return hit


def hierarchy(exp, tpath, prefix=()):
    out = []
    t = exp["types"].get(tpath)
    if not t:
        return out
    for fname, bpath in t.get("base_fields") or []:
        out.append((prefix + (fname,), bpath))
        out.extend(hierarchy(exp, bpath, prefix + (fname,)))
    return out


def mon_c07(res):
    fails = []
    exp = res.case.get("exp")
    if res.hv[0] != "ok" or not exp:
        return fails
    memo = {}
    collide = rename_collides(exp)
    for tpath, t in exp["types"].items():
        if not t.get("base_fields"):
            continue
        if tpath in collide:
            # finding F24: two functions of one name are emitted for this type; which one a lookup by name finds is moot
            fails.append(dict(clause="C07.rename_collision", kf="KF_rename_collides",
                              detail="%s: the renamed name of an inherited function is taken as well" % tpath))
            continue
        f, tname = file_of_type(res, tpath)
        ms = methods_of(f, tname)
        for name, field, orig in public_assoc(exp, tpath, memo):
            if field is None or name.startswith("_"):
                continue
            m = ms.get(name)
            if m is None:
                fails.append(dict(clause="C07.forward_missing", detail="%s::%s (forwarding %s.%s)" % (tpath, name, field, orig)))
                continue
            body = " ".join(sx.show(x) for x in fn_parts(m)["body"])
            if not body.startswith("self . %s . %s (paren" % (field, orig)):
                fails.append(dict(clause="C07.forward_target", detail="%s::%s: %s" % (tpath, name, body[:200])))
            else:
                params = [p for p in params_shape(fn_parts(m)["params"]) if not p.startswith("&")]
                args = body[body.index("(paren") + 6:-1].strip()
                if args != " , ".join(params):
                    fails.append(dict(clause="C07.forward_args", detail="%s::%s passes (%s), takes %s" % (tpath, name, args, params)))
        # AsRef / AsMut
        h = hierarchy(exp, tpath)
        counts = collections.Counter(b for _, b in h)
        impls = {}
        if f is not None and f[0] == "file":
            for it in f[2:]:
                if isinstance(it, list) and it[0] == "impl" and it[2] != "notrait" and sx.show(it[3]) == "(self %s)" % tname:
                    tr = " ".join(sx.show(x) for x in it[2][1:])
                    fn = [x for x in it[4:] if isinstance(x, list) and x[0] == "fn"]
                    impls[tr] = " ".join(sx.show(x) for x in fn_parts(fn[0])["body"]) if fn else None
        mod = tuple(tpath.split("::")[:-1])
        for fp, b in h:
            target = "crate : : " + " : : ".join(b.split("::"))
            k_ref = "std : : convert : : AsRef < %s >" % target
            k_mut = "std : : convert : : AsMut < %s >" % target
            if counts[b] == 1:
                if impls.get(k_ref) != "& self . " + " . ".join(fp):
                    fails.append(dict(clause="C07.asref", detail="%s -> %s: %s" % (tpath, b, impls.get(k_ref))))
                if impls.get(k_mut) != "& mut self . " + " . ".join(fp):
                    fails.append(dict(clause="C07.asmut", detail="%s -> %s: %s" % (tpath, b, impls.get(k_mut))))
            elif k_ref in impls or k_mut in impls:
                fails.append(dict(clause="C07.asref_ambiguous", detail="%s -> %s occurs %d times yet a conversion is emitted" % (tpath, b, counts[b])))
    return fails


def mon_c15(res):
    fails = []
    exp = res.case.get("exp")
    if res.hv[0] != "ok" or not exp:
        return fails
    for tpath, t in list(exp["types"].items()) + list(exp["enums"].items()):
        if t.get("singleton") is None:
            continue
        f, tname = file_of_type(res, tpath)
        m = methods_of(f, tname).get("get")
        if m is None:
            fails.append(dict(clause="C15.get_missing", detail=tpath))
            continue
        fp = fn_parts(m)
        body = " ".join(sx.show(x) for x in fp["body"])
        is_enum = tpath in exp["enums"]
        if (fp["vis"] == "pub") != t["pub"]:
            fails.append(dict(clause="C15.get_vis", detail=tpath))
        if is_enum:
            want = "unsafe (brace (paren (i %d -) as * const Self) . read (paren))" % t["singleton"]
            ret = "Self"
        else:
            want = "unsafe (brace let ptr : * mut Self = * (paren (i %d usize) as * mut * mut Self) ; ptr . as_mut (paren))" % t["singleton"]
            ret = "Option < & ' static mut Self >"
        if body != want:
            fails.append(dict(clause="C15.singleton_body", detail="%s: %s" % (tpath, body[:200])))
        if " ".join(sx.show(x) for x in fp["ret"]) != ret:
            fails.append(dict(clause="C15.singleton_ret", detail="%s: %s" % (tpath, sx.show(fp["ret"]))))
    for epath, e in exp["externs"].items():
        parts = epath.split("::")
        f = res.hfiles.get("/".join(parts[:-1]) + ".rs")
        fn = None
        if f is not None and f[0] == "file":
            for it in f[2:]:
                if isinstance(it, list) and it[0] == "fn" and it[4] == "get_" + parts[-1]:
                    fn = it
        if fn is None:
            fails.append(dict(clause="C15.extern_missing", detail=epath))
            continue
        fp = fn_parts(fn)
        body = " ".join(sx.show(x) for x in fp["body"])
        ret = " ".join(sx.show(x) for x in fp["ret"])
        if (fp["vis"] == "pub") != e["pub"]:
            fails.append(dict(clause="C15.extern_vis", detail=epath))
        mm = _re.match(r"^unsafe \(brace & mut \* \(paren \(i (\d+) -\) as \* mut (.*)\)\)$", body)
        if not mm or int(mm.group(1)) != e["addr"]:
            fails.append(dict(clause="C15.extern_address", detail="%s: %s (declared %d)" % (epath, body[:160], e["addr"])))
        elif not ret.startswith("& ' static mut ") or ret[len("& ' static mut "):] != mm.group(2):
            fails.append(dict(clause="C15.extern_type", detail="%s: returns %s, casts to %s" % (epath, ret, mm.group(2))))
        elif e.get("want_path") and (e["want_path"] not in mm.group(2).replace(" ", "") or e["not_path"] in mm.group(2).replace(" ", "")):
            fails.append(dict(clause="C15.extern_type", detail="%s: declared type `%s` names %s (the declaring module's own definition), emitted %s"
                              % (epath, e["type"], e["want_path"], mm.group(2))))
    return fails


def docs_of(attrs):
    return [sx.qtext(x) if isinstance(x, sx.Q) else str(x) for x in corr.split_attrs(attrs)["doc"]]


def mon_c17(res):
    fails = []
    exp = res.case.get("exp")
    if res.hv[0] != "ok" or not exp:
        return fails

    def chk(cond, clause, detail):
        if not cond:
            fails.append(dict(clause=clause, detail=detail))

    docs_memo = {}
    for rel, m in (exp.get("modules") or {}).items():
        f = res.hfiles.get(rel + ".rs")
        if f is not None and f[0] == "file":
            chk(docs_of(f[1]) == m["doc"], "C17.module_doc", "%s: %s vs declared %s" % (rel, docs_of(f[1]), m["doc"]))
    for tpath, t in exp["types"].items():
        f, tname = file_of_type(res, tpath)
        st = struct_of(f, tname)
        if st is None:
            continue
        at = corr.split_attrs(st[1])
        chk((st[2] == "pub") == t["pub"], "C17.type_vis", tpath)
        want = set()
        if t["copyable"]:
            want |= {"Copy", "Clone"}
        if t["cloneable"]:
            want |= {"Clone"}
        if t["defaultable"]:
            want |= {"Default"}
        chk(set(at["derive"] or []) == want, "C17.derive", "%s: %s, declared %s" % (tpath, sorted(at["derive"] or []), sorted(want)))
        if t["packed"]:
            chk(at["repr"] == "C , packed", "C17.packed", "%s: repr(%s)" % (tpath, at["repr"]))
        else:
            chk((at["repr"] or "").startswith("C , align (paren"), "C17.repr", "%s: repr(%s)" % (tpath, at["repr"]))
        chk(docs_of(st[1]) == t["doc"], "C17.type_doc", "%s: %s vs declared %s" % (tpath, docs_of(st[1]), t["doc"]))
        meta = t.get("field_meta") or {}
        for x in st[4:]:
            if not (isinstance(x, list) and x[0] == "field"):
                continue
            n = str(x[3])
            if n in meta:
                chk((x[2] == "pub") == meta[n][0], "C17.field_vis", "%s.%s" % (tpath, n))
                chk(docs_of(x[1]) == meta[n][1], "C17.field_doc", "%s.%s: %s vs %s" % (tpath, n, docs_of(x[1]), meta[n][1]))
            else:
                chk(x[2] == "priv" and not docs_of(x[1]), "C17.generated_field_private", "%s.%s" % (tpath, n))
        ms = methods_of(f, tname)
        for d in t["impls"] + [d for d in (t.get("slot_descs") or []) if d]:
            m = ms.get(d["name"])
            if m is None or d["name"].startswith("_"):
                continue
            chk((m[2] == "pub") == d["pub"], "C17.method_vis", "%s::%s" % (tpath, d["name"]))
            chk(docs_of(m[1]) == d["doc"], "C17.method_doc", "%s::%s: %s vs %s" % (tpath, d["name"], docs_of(m[1]), d["doc"]))
        # copies inherited from base types carry the documentation of the function they forward to
        for name, field, orig, doc in assoc_docs(exp, tpath, docs_memo):
            m = ms.get(name)
            if field is None or m is None:
                continue
            body = " ".join(sx.show(x) for x in fn_parts(m)["body"])
            if body.startswith("self . %s . %s (paren" % (field, orig)):
                chk(docs_of(m[1]) == doc, "C17.inherited_doc", "%s::%s (forwarding %s.%s): %s vs %s" % (tpath, name, field, orig, docs_of(m[1]), doc))
        for special in ("vftable", "get"):
            if special in ms:
                chk(not docs_of(ms[special][1]), "C17.stray_doc", "%s::%s" % (tpath, special))
        if t.get("declared_vft"):
            vst = struct_of(f, tname + "Vftable")
            descs = t.get("slot_descs") or []
            if vst is not None:
                chk(not docs_of(vst[1]), "C17.stray_doc", "%sVftable" % tpath)
                for k, x in enumerate([y for y in vst[4:] if isinstance(y, list) and y[0] == "field"]):
                    d = descs[k] if k < len(descs) else None
                    if d is None:
                        chk(x[2] == "priv" and not docs_of(x[1]), "C17.placeholder_private", "%sVftable slot %d" % (tpath, k))
                    else:
                        chk((x[2] == "pub") == d["pub"], "C17.slot_vis", "%sVftable.%s" % (tpath, d["name"]))
                        chk(docs_of(x[1]) == d["doc"], "C17.slot_doc", "%sVftable.%s: %s vs %s" % (tpath, d["name"], docs_of(x[1]), d["doc"]))
    for epath, e in exp["enums"].items():
        f, ename = file_of_type(res, epath)
        it = struct_of(f, ename)
        if it is None:
            continue
        at = corr.split_attrs(it[1])
        chk((it[2] == "pub") == e["pub"], "C17.enum_vis", epath)
        want = {"PartialEq", "Eq", "PartialOrd", "Ord", "Debug"}
        if e["copyable"]:
            want |= {"Copy", "Clone"}
        if e["cloneable"]:
            want |= {"Clone"}
        if e["defaultable"]:
            want |= {"Default"}
        chk(set(at["derive"] or []) == want, "C17.enum_derive", "%s: %s vs %s" % (epath, sorted(at["derive"] or []), sorted(want)))
        chk(docs_of(it[1]) == e["doc"], "C17.enum_doc", "%s: %s vs %s" % (epath, docs_of(it[1]), e["doc"]))
    # no doc on helper items
    for rel, f in res.hfiles.items():
        if f is None or f[0] != "file":
            continue
        for it in f[2:]:
            if isinstance(it, list) and it[0] == "fn" and str(it[4]).endswith("_size_check"):
                chk(not docs_of(it[1]), "C17.stray_doc", "%s %s" % (rel, it[4]))
            if isinstance(it, list) and it[0] == "impl" and it[2] != "notrait":
                for m in it[4:]:
                    if isinstance(m, list) and m[0] == "fn":
                        chk(not docs_of(m[1]), "C17.stray_doc", "%s %s" % (rel, corr.item_key(it)))
    return fails


def mon_c14(res):
    fails = []
    exp = res.case.get("exp")
    if res.hv[0] != "ok" or not exp or "modules" not in exp:
        return fails
    want_files = sorted(m + ".rs" for m in exp["modules"])
    if sorted(res.hfiles) != want_files:
        fails.append(dict(clause="C14.file_set", detail="written %s, modules %s" % (sorted(res.hfiles), want_files)))
        return fails
    declared = collections.defaultdict(lambda: dict(structs=[], enums=[], vfts=[], externs=[]))
    for tpath, t in exp["types"].items():
        parts = tpath.split("::")
        declared["/".join(parts[:-1])]["structs"].append(parts[-1])
        if t.get("declared_vft"):
            declared["/".join(parts[:-1])]["vfts"].append(parts[-1] + "Vftable")
    for epath in exp["enums"]:
        parts = epath.split("::")
        declared["/".join(parts[:-1])]["enums"].append(parts[-1])
    for xpath in exp["externs"]:
        parts = xpath.split("::")
        declared["/".join(parts[:-1])]["externs"].append("get_" + parts[-1])
    for rel, m in exp["modules"].items():
        f = res.hfiles.get(rel + ".rs")
        if f is None or f[0] != "file":
            fails.append(dict(clause="C14.unparsable", detail=rel))
            continue
        items = [x for x in f[2:] if isinstance(x, list)]
        structs = [str(x[3]) for x in items if x[0] == "struct"]
        enums = [str(x[3]) for x in items if x[0] == "enum"]
        getters = [str(x[4]) for x in items if x[0] == "fn" and str(x[4]).startswith("get_")]
        d = declared[rel]
        if sorted(structs) != sorted(d["structs"] + d["vfts"]):
            fails.append(dict(clause="C14.structs", detail="%s: emitted %s, declared %s" % (rel, sorted(structs), sorted(d["structs"] + d["vfts"]))))
        if sorted(enums) != sorted(d["enums"]):
            fails.append(dict(clause="C14.enums", detail="%s: emitted %s, declared %s" % (rel, sorted(enums), sorted(d["enums"]))))
        if sorted(getters) != sorted(d["externs"]):
            fails.append(dict(clause="C14.extern_accessors", detail="%s: emitted %s, declared %s" % (rel, sorted(getters), sorted(d["externs"]))))
        text = " ".join(sx.show(x) for x in items)
        if "include" in text:
            fails.append(dict(clause="C14.foreign_backend_text", detail=rel))
        if m["pro"]:
            first = items[0] if items else None
            if not (first and first[0] == "const" and str(first[3]).startswith("PRO_")):
                fails.append(dict(clause="C14.prologue_first", detail="%s: first item %s" % (rel, sx.show(first)[:80] if first else None)))
            if sum(1 for x in items if x[0] == "const" and str(x[3]).startswith("PRO_")) != 1:
                fails.append(dict(clause="C14.prologue_once", detail=rel))
        if m["epi"]:
            last = items[-1] if items else None
            if not (last and last[0] == "fn" and str(last[4]).startswith("epi_")):
                fails.append(dict(clause="C14.epilogue_last", detail="%s: last item %s" % (rel, sx.show(last)[:80] if last else None)))
        if m.get("pro_seq"):
            got = [str(x[3]) for x in items[:len(m["pro_seq"])] if x[0] == "const"]
            if got != m["pro_seq"]:
                fails.append(dict(clause="C14.prologue_order", detail="%s: the file starts with %s, the prologue statements are %s in this order" % (rel, got, m["pro_seq"])))
        if m.get("epi_seq"):
            got = [str(x[4]) for x in items[-len(m["epi_seq"]):] if x[0] == "fn"]
            if got != m["epi_seq"]:
                fails.append(dict(clause="C14.epilogue_order", detail="%s: the file ends with %s, the epilogue statements are %s in this order" % (rel, got, m["epi_seq"])))
    return fails


def mon_c10(res):
    fails = []
    exp = res.case.get("exp")
    if not exp or "c10" not in exp:
        return fails
    c = exp["c10"]
    should_ok = not c["stuck"] and not c["hard_error"]
    if res.hv[0] == "ok" and not should_ok:
        fails.append(dict(clause="C10.accepted_unresolvable", detail="stuck items %s, undefined name elsewhere: %s" % (c["stuck"], c["hard_error"])))
    if res.hv[0] != "ok" and should_ok:
        fails.append(dict(clause="C10.rejected_resolvable", detail="all names defined and by-value embedding acyclic, yet: %s %s" % (res.hv[0], str(res.hv[1])[:200])))
    if res.hv[0] == "noprogress" and res.hv[1] is not None and sorted(res.hv[1]) != c["stuck"]:
        fails.append(dict(clause="C10.noprogress_list", detail="error lists %s, the unresolvable items are %s" % (sorted(res.hv[1]), c["stuck"])))
    if res.hv[0] == "ok":
        reg = registry_of(res)
        missing = [p for p in c["all_items"] if tuple(p.split("::")) not in reg]
        if missing:
            fails.append(dict(clause="C10.item_left_out", detail="accepted, but %s are not in the registry" % missing))
        for p in c["all_items"]:
            f, name = file_of_type(res, p)
            if struct_of(f, name) is None:
                fails.append(dict(clause="C10.item_not_emitted", detail=p))
    return fails


# ------------------------------------------------------------------------------------------------
# property table

STRUCT_PROFILE = dict(p_vftable=0.25, p_base=0.3, p_impl=0.2, enums=(0, 2), externs=(0, 2), fields=(1, 7),
                      p_addr=0.45, p_gap=0.25, p_size=0.35, p_align=0.2, p_packed=0.15, p_user_field=0.45,
                      p_array=0.25, extern_values=(0, 0), p_backend=0.0)

PROPS = {
    "C01": dict(
        profile=STRUCT_PROFILE, n=(400, 6000), corpus=["common", "C01"],
        aspects=["verdict", "items", "fields", "field_types", "repr", "registry"],
        monitors=[mon_c01],
        nontrivial=lambda res: res.hv[0] == "ok" and res.case.get("exp") and any(
            sum(1 for f in t["fields"] if not f[5]) >= 2 and any(f[4] for f in t["fields"])
            for t in res.case["exp"]["types"].values()),
        rule="grammar-directed multi-module inputs built from a consistent layout (gen.py, STRUCT profile) plus one "
             "near-miss per ~12% of inputs; distinct = distinct file contents; non-trivial = accepted, some type has "
             ">= 2 named fields and >= 1 explicit address",
        kf_filter=lambda case: uses_void_by_value(case["files"]),
    ),
    "C02": dict(
        profile=dict(STRUCT_PROFILE, p_user_field=0.6, enums=(1, 3), externs=(0, 2), p_vftable=0.35),
        n=(400, 6000), corpus=["common", "C02"],
        aspects=["verdict", "registry", "repr", "size_check", "enum_repr", "fields", "field_types", "items"],
        monitors=[mon_c02],
        nontrivial=lambda res: res.hv[0] == "ok" and len(registry_of(res)) >= 3,
        rule="as C01, weighted towards nesting (user-typed fields, arrays of types, enums over all integer bases, "
             "extern types, vftable structs); non-trivial = accepted with >= 3 registry items",
        kf_filter=lambda case: uses_void_by_value(case["files"]),
    ),
}


FUNC_PROFILE = dict(p_impl=0.9, impl_fns=(1, 4), args=(0, 6), p_cc=0.45, p_ret=0.6, p_vftable=0.45, vfuncs=(0, 5),
                    p_base=0.35, fields=(0, 3), enums=(0, 1), externs=(0, 1), extern_values=(0, 0), p_backend=0.0,
                    types=(1, 4), p_addr=0.2, p_gap=0.1)

PROPS["C05"] = dict(
    exec_oracle=True,
    generator=lambda seed_, ptr_: (gen_special.gen_c11(seed_, ptr_) if seed_ % 12 == 5
                                   else gen.generate(seed_, ptr_, PROPS["C05"]["profile"])),
    profile=FUNC_PROFILE, n=(400, 6000), corpus=["common", "C05"],
    aspects=["verdict", "methods", "fn_sig", "body_addr", "items"],
    monitors=[mon_c05, mon_c05_scoped],
    nontrivial=lambda res: res.hv[0] == "ok" and res.case.get("exp") and (
        "c11" in res.case["exp"] or any(t["impls"] for t in res.case["exp"]["types"].values())),
    rule="one case in twelve: the scoping inputs of C11 (the same short names defined in several modules; the observer's impl function names "
         "one of them in its parameter and return type); otherwise "
         "gen.py with the FUNC profile: impl blocks with 1..4 functions, 0..6 integer/pointer/user-typed arguments, with and "
         "without receiver and return type, addresses in decimal/hex/binary/octal/underscore spellings incl. 0, 2^31, 2^32-1; "
         "non-trivial = accepted with >= 1 impl function",
    level_text="Proved in Coq for every registry, scope and function (Properties/C05.v): an accepted impl function becomes a record with "
               "the declared name, visibility, arguments in order with their resolved types, the declared return type (never dropped), body "
               "'call absolute address A' with A the written #[address]; no address / unresolvable parameter / unresolvable return type are rejected; "
               "the impl loop keeps every function in order. On the emitted text (EmitFn*.v, readers proved to invert the printers): C05_wrapper_shape/_address (the printed function item, read back from its tokens, has the record's name, visibility, parameters, return type and a body that transmutes exactly address A to an extern \"cc\" fn pointer and calls it, receiver first, arguments in order) and C05_emitted_impl_function (in every accepted collision-free build each declared impl function has that wrapper, with the declared address and cc_spec, in the inherent impl of its type in the module's file). The printed wrapper is also compared token for token "
               "(signature, fn-pointer type, address by value, call arguments) with the real output, and the monitor re-derives address, argument order "
               "and single-call shape from the implementation's file against the description.",
    level_note="Run-time behaviour of the emitted code is checked by the execution oracle on a sample per run (tools/exec_oracle.py: the emitted crate compiled with a generated driver and run on the host; address-bound wrappers (with and without receiver); trusted: SysV ABI, ABI strings normalised to C). Trusted: Coq kernel; model validated by this run's correspondence; the meaning of the emitted body shape "
               "(one call through a transmuted fn pointer) is RustExec.v's definition (spec side, by inspection of a 3-line template), not rustc's.",
)
PROPS["C16"] = dict(
    profile=dict(FUNC_PROFILE, p_cc=0.6, p_vftable=0.7, p_base=0.6, p_slot_mut=0.2, slot_mut_kinds=["cc"]), n=(400, 6000), corpus=["common", "C16"],
    aspects=["verdict", "field_types", "body_addr", "fn_sig", "methods"],
    monitors=[mon_c16],
    nontrivial=lambda res: res.hv[0] == "ok" and res.case.get("exp") and any(
        t["impls"] or t.get("declared_vft") for t in res.case["exp"]["types"].values()),
    rule="gen.py FUNC profile weighted towards calling_convention attributes (all seven names), with and without receiver, "
         "in impl and vftable blocks, through inheritance chains; near-miss stream contains unknown convention names; "
         "non-trivial = accepted with an impl function or a declared vftable",
    level_text="Proved in Coq (Properties/C16.v): every accepted function (impl or virtual) carries cc_spec = the named convention, else thiscall with "
               "a receiver, else system; unknown names are rejected; exactly the seven names are supported; the slot's fn-pointer type carries the "
               "function's convention; placeholders are thiscall. On the emitted text (EmitFn*.v): the ABI string read back from the tokens of a printed fn-pointer type is that of its convention (C16_fnptr_abi_read_back), every slot field of an emitted vftable struct carries its function record's convention (C16_emitted_slot_abi), and the wrapper of every declared impl function of an accepted build names cc_spec of the declaration (C05_emitted_impl_function). Correspondence compares all fn-pointer types (vftable fields) and wrapper bodies; "
               "the monitor recomputes the expected convention from the description for wrappers, slots and placeholders.",
    level_note="Trusted: Coq kernel; model validated by this run's correspondence; equality of a function's convention across derived tables follows from C06's "
               "prefix equality (proved there).",
)

PROPS["C08"] = dict(
    profile=dict(enums=(2, 6), types=(0, 2), externs=(0, 0), extern_values=(0, 0), p_markers=0.5, p_singleton=0.2,
                 p_backend=0.0, fields=(0, 3), p_vftable=0.1, p_impl=0.1, miss=0.25, p_big_discr=0.02),
    n=(400, 6000), corpus=["common", "C08"],
    aspects=["verdict", "enum_repr", "enum_values", "enum_default", "derive", "registry", "items"],
    monitors=[mon_c08],
    nontrivial=lambda res: res.hv[0] == "ok" and res.case.get("exp") and len(res.case["exp"]["enums"]) >= 1,
    rule="gen.py ENUM profile: 2..6 enums per module over all ten integer bases, 1..6 variants, explicit values in decimal/hex/"
         "binary/octal incl. the base type's MIN/MAX, negative values on signed bases, implicit runs, default marker at any/no/two positions; "
         "non-trivial = accepted with >= 1 enum",
    level_text="Proved in Coq (Properties/C08.v) for every state and enum description the model's enum_build accepts: representation = the declared base type with its "
               "size and alignment; variant k has the written discriminant, else predecessor+1, else 0 (values_spec); exactly the marked variant is the default, "
               "default markers and defaultable must come together (the three mismatches cannot yield Ok); rustc's `v as _` under repr(base) is v for in-range v "
               "(cast_in_range). Out-of-range discriminants are the listed known finding F2 (C08_range_refuted shows it on the model; the repository's own test pins it). "
               "Correspondence compares repr, derives, variant names/literals/default attribute and the registry; the monitor recomputes intended values from the description.",
    level_note="Trusted: Coq kernel; model validated by this run's correspondence; cast semantics of `as _` is RustLayout.cast_discr (spec side); rustc on a sample per run: size/alignment of the emitted enums and, through one constant per variant, the compiled discriminant VALUES at pointer width 4 and 8 (nightly, no core, *-pc-windows-msvc).",
    kf_class="KF_discr_out_of_range",
    layout_oracle=True,
)

import gen_special  # noqa: E402
PROPS["C11"] = dict(
    generator=gen_special.gen_c11, n=(500, 8000), corpus=["common", "C11"],
    aspects=["verdict", "field_types", "fn_sig", "registry", "extern", "body_addr", "noprogress_set"],
    monitors=[mon_c11],
    nontrivial=lambda res: res.hv[0] == "ok" and res.case.get("exp") and "c11" in res.case["exp"] and any(
        b and len(b) > 1 for _, _, b, _ in res.case["exp"]["c11"]["fields"]),
    rule="tools/gen_special.py gen_c11: the short names T, U, u32, Node defined with pairwise different sizes in 2..4 modules at nesting depth 1..3 "
         "and/or locally; an observer module with 0..6 `use` lines mixing type imports, module imports, repeats and useless paths; an observer "
         "packed type whose size is the sum of the bound types' sizes, and a function with pointer parameter/return type; the expected binding is "
         "computed from the property's four rules by the generator; non-trivial = accepted and some field binds to a user definition",
    level_text="Proved in Coq (Properties/C11.v): the model's resolve_string equals lookup_spec -- the property's precedence list -- for every registry, module "
               "path (not itself an item path), use list and name; the result is an entry of the registry; the emitted reference is crate:: + that path; size and alignment "
               "used for layout are that entry's. For the whole build (BindingWhole.v, BindingEmit.v; collision-free clean input, any schedule): C11_binding_stable_whole_build / C11_attempt_binding_is_final -- a clean name resolves in every registry of the build, and in the final one, as lookup_spec over the INPUT's definitions says; C11_field_whole_build / C11_field_of_named_type -- every declared field's region has the type, size and alignment of exactly the selected entry; the same for parameters, return types, enum bases and extern values; C11_emitted_field / _impl_functions / _extern_values -- the emitted text names crate::<path of the selected definition>. Correspondence compares every emitted field/parameter/return type and the registry; the monitor recomputes the binding "
               "from the four rules (independently of model and implementation) and checks emitted paths and the observer's size.",
    level_note="Trusted: Coq kernel; model validated by this run's correspondence. Scope note: a module path that is also an item path (a directory and a type sharing a name) is outside the theorem's hypothesis.",
)

INHERIT_PROFILE = dict(FUNC_PROFILE, p_fn_name_reuse=0.3, miss=0.1, p_slot_mut=0.35, p_base=0.75, p_vftable=0.6, types=(2, 6), vfuncs=(0, 4), p_impl=0.7, impl_fns=(0, 3),
                       fields=(0, 2), p_index=0.3, modules=(1, 2))

PROPS["C04"] = dict(
    exec_oracle=True,
    profile=dict(FUNC_PROFILE, p_vftable=0.85, vfuncs=(0, 8), p_index=0.45, p_base=0.4, p_impl=0.2, p_vft_size_miss=0.08), n=(400, 6000), corpus=["common", "C04"],
    aspects=["verdict", "fields", "field_types", "accessor", "body_vftable", "fn_sig", "methods", "items"],
    monitors=[mon_c04],
    nontrivial=lambda res: res.hv[0] == "ok" and res.case.get("exp") and any(
        t.get("has_vftable") and any(t.get("slot_descs") or []) for t in res.case["exp"]["types"].values()),
    rule="gen.py FUNC profile weighted to vftable blocks: 0..8 functions, increasing / equal index patterns with gaps, table sizes at and above the count, "
         "&self/&mut self, 0..6 arguments, own and inherited tables; near-miss stream: index below position, size below slot count; "
         "non-trivial = accepted and some type has a vftable with >= 1 declared function",
    level_text="Proved in Coq (Properties/C04.v), for tables of any length: slot_plan positions = where the model puts each declared function, all other slots are "
               "_vfunc_k placeholders, table length max(size, last+1); contradicting index / too small size cannot be accepted; slot k of the generated struct is at byte offset k*ptr; "
               "RustExec: the wrapper loads the object's vftable pointer (own first field, or the base sub-object's accessor) and makes exactly one call to the entry in its slot with receiver "
               "first and arguments in order. On the emitted text (EmitFn*.v): C04_emitted_vftable_struct -- for every type of an accepted build with a vftable block the module's file contains the struct <T>Vftable, repr(C, align(ptr)), one fn-pointer field per slot of the resolved table in slot order with the slot function's ABI, parameter and return types; a virtual function's wrapper is the template (self.vftable().<name>)(receiver, args..) (C05_wrapper_shape). C04_emitted_declared_slot (EmitVftLayout.v): a virtual function declared #[index(i)] is the fn-pointer field at byte offset i*ptr of the emitted struct, computed by the Reference algorithm from the emitted item. Correspondence compares vftable struct fields/types, accessor and wrapper bodies; the monitor re-derives slots, placeholder shape, "
               "slot byte offsets (independent layout calculator) and wrapper call shape from the implementation's files against the description. C04_whole_build: end to end, the <T>Vftable item "
               "of the FINAL registry of every accepted collision_free build is the struct built from exactly the converted slot list, final from the moment its owner is resolved.",
    level_note="Run-time behaviour of the emitted code is checked by the execution oracle on a sample per run (tools/exec_oracle.py: the emitted crate compiled with a generated driver and run on the host; virtual-call wrappers (own, inherited, displaced); trusted: SysV ABI, ABI strings normalised to C). Trusted: Coq kernel; model validated by this run's correspondence; RustExec.v is the meaning given to the three-line wrapper template (spec side, not rustc); "
               "slot lookup by name assumes distinct function names in one table (duplicates are a C13 matter).",
)
PROPS["C06"] = dict(
    exec_oracle=True,
    profile=INHERIT_PROFILE, n=(400, 6000), corpus=["common", "C06"],
    aspects=["verdict", "fields", "field_types", "accessor", "items"],
    monitors=[mon_c06],
    nontrivial=lambda res: res.hv[0] == "ok" and res.case.get("exp") and any(
        t.get("base_fields") and t.get("has_vftable") for t in res.case["exp"]["types"].values()),
    rule="gen.py INHERIT profile: chains and trees of bases (1..3 bases per type, depth up to the number of types), each base with or without a vftable, derived "
         "with or without its own block re-declaring the inherited slots; single-slot mutations come from the near-miss stream and the corpus; "
         "non-trivial = accepted with a type that has a base and a vftable",
    level_text="Proved in Coq (Properties/C06.v): with a first base that has a vftable, an accepted derived type has no own pointer region, its block (if any) extends the base's "
               "functions position by position (record equality: name, receiver/parameters, return type, convention, also visibility and doc), any differing slot rejects, the accessor goes through the base field and "
               "(RustExec) yields the base sub-object's accessor value; without such a base an own block puts the single pointer-sized private `vftable` field first, at offset 0, before all declared fields. "
               "Correspondence compares struct fields, accessor bodies and verdicts; the monitor recomputes prefix and pointer placement from the emitted files. On the emitted text (EmitInherit.v): C06_emitted_shared_pointer (no generated pointer field in the struct of a type whose first base carries a vftable; the vftable() accessor read back goes through the base field and casts to the right table type), C06_emitted_own_pointer (otherwise the private vftable pointer is the first emitted field, at offset 0 of the Reference layout, the only generated pointer), C06_emitted_vftable_prefix (the emitted derived table struct starts with the fields of the emitted base table -- name, visibility, docs, ABI, types except the receiver pointee -- and both have slot k at k*ptr: a layout prefix, through any depth of first-base inheritance).",
    level_note="Run-time behaviour of the emitted code is checked by the execution oracle on a sample per run (tools/exec_oracle.py: the emitted crate compiled with a generated driver and run on the host; vftable() accessors; trusted: SysV ABI, ABI strings normalised to C). Trusted: Coq kernel; model validated by this run's correspondence; RustExec.v for the accessor's value.",
)
PROPS["C07"] = dict(
    exec_oracle=True,
    generator=lambda seed_, ptr_: (gen_special.gen_c07_namesakes(seed_, ptr_) if seed_ % 15 == 3
                                   else gen.generate(seed_, ptr_, PROPS["C07"]["profile"])),
    profile=INHERIT_PROFILE, n=(400, 6000), corpus=["common", "C07"],
    aspects=["verdict", "methods", "body_field", "fn_sig", "asref", "asref_conflict", "items"],
    monitors=[mon_c07],
    nontrivial=lambda res: res.hv[0] == "ok" and res.case.get("exp") and any(
        t.get("base_fields") and public_assoc(res.case["exp"], p_, {}) for p_, t in res.case["exp"]["types"].items()),
    rule="one case in fifteen: base types sharing their simple name in different modules, reached through intermediate bases (gen_special.gen_c07_namesakes); otherwise "
         "gen.py INHERIT profile: hierarchies with up to three bases per level, diamonds (the same base type reached twice), name clashes between bases (same type twice) "
         "and public/private mixes; non-trivial = accepted with a derived type that re-exposes >= 1 function",
    level_text="Proved in Coq (Properties/C07.v): inject_bases appends, per resolved base in region order, one forwarding function per public associated function (and per public virtual function for "
               "bases after the first), copying signature/visibility/doc/convention, with body 'call g on field b'; named g when unused, else <field>_<g>; RustExec: calling it = calling g on the object at self+offset(b), "
               "that offset being the prefix-sum offset of b. Receiver-less forwarded functions are known finding F10. AsRef/AsMut conversions (HierSpec.v, Conv*.v): the hierarchy is specified independently of the emitter (bases_of) and equals the emitter's walk for any sufficient fuel; read back from the emitted tokens, the conversion items are exactly one AsRef and one AsMut impl per sub-object whose type occurs once, borrowing self.<field path>, no impl but a _CONFLICTING_ const for a type that occurs more than once, the reflexive pair and nothing else (C07_asref_read/_unique_base/_repeated_base/_nothing_else); the borrowed place is at the sum of the prefix-sum offsets of the nested base fields (C07_asref_offset, under sized regions and distinct field names); C07_asref_whole_build: for every type of an accepted build in its module's file. Correspondence (asref aspects) and the monitor check the same on the real output.",
    level_note="Run-time behaviour of the emitted code is checked by the execution oracle on a sample per run (tools/exec_oracle.py: the emitted crate compiled with a generated driver and run on the host; forwarders (impl and virtual) and AsRef/AsMut; trusted: SysV ABI, ABI strings normalised to C). Trusted: Coq kernel; model validated by this run's correspondence; RustExec.v for method calls; the AsRef/AsMut clause is decided by correspondence + monitor only (partial).",
    kf_filter=lambda case: False,
)
PROPS["C15"] = dict(
    exec_oracle=True,
    generator=lambda seed_, ptr_: (gen_special.gen_c15_shadow(seed_, ptr_) if seed_ % 10 == 0
                                   else gen.generate(seed_, ptr_, PROPS["C15"]["profile"])),
    profile=dict(p_singleton=0.6, extern_values=(1, 4), enums=(1, 3), types=(1, 3), externs=(0, 2), p_vftable=0.1, p_impl=0.1, p_base=0.1,
                 p_backend=0.0, fields=(0, 3), modules=(1, 3), p_extern_only_module=0.25),
    n=(400, 6000), corpus=["common", "C15"],
    aspects=["verdict", "singleton", "extern", "items"],
    monitors=[mon_c15],
    nontrivial=lambda res: res.hv[0] == "ok" and res.case.get("exp") and (
        res.case["exp"]["externs"] or any(t.get("singleton") is not None for t in list(res.case["exp"]["types"].values()) + list(res.case["exp"]["enums"].values()))),
    rule="gen.py with singletons on 60% of types/enums and 1..4 extern values per module (pointer, array, user and built-in types; addresses in all literal spellings); "
         "near-miss: extern value without address; non-trivial = accepted with >= 1 singleton or extern value",
    level_text="Proved in Coq (Properties/C15.v): an extern value is registered only with an address attribute (last wins, negative rejected), keeps name/visibility/address, and ends with its declared type "
               "resolved or the build fails; without an address it is rejected. RustExec defines the accessors' values (struct get: word at A, None when null; enum get: value at A; get_x: reference to A). On the emitted text (EmitFn*.v): the printed get accessors read back exactly the address they were given (C15_emitted_singleton, C15_emitted_enum_singleton) and every extern value has, in its module's file, a get_<name> with its visibility casting exactly its address to &'static mut <declared type> (C15_emitted_extern_value). End to end from the declaration (EmitAccessors.v, EmitExternOnce.v, EmitSingletonOnce.v): a type or enum whose last #[singleton(A)] is A gets exactly one get accessor with its visibility that reads exactly A, one without the attribute gets none (C15_struct_singleton_declared/_exactly_once, C15_enum_singleton_*), negative values are rejected; every declared extern value gets get_<name> casting exactly the last declared address, the file holds no other get_* function (C15_extern_accessor_of_declaration, C14_extern_accessors_exactly_once), and an extern value without address is rejected at registration. "
               "Correspondence compares the emitted accessor items token for token (address by value); the monitor checks signature, address and cast type against the description.",
    level_note="Run-time behaviour of the emitted code is checked by the execution oracle on a sample per run (tools/exec_oracle.py: the emitted crate compiled with a generated driver and run on the host; singleton, enum-singleton and extern accessors; trusted: SysV ABI, ABI strings normalised to C). Trusted: Coq kernel; model validated by this run's correspondence; RustExec.v definitions for what the accessor bodies compute.",
)

PROPS["C17"] = dict(
    profile=dict(p_doc=0.6, p_pub=0.5, p_markers=0.6, p_packed=0.25, p_vftable=0.4, p_impl=0.5, p_base=0.3, enums=(0, 3), p_backend=0.0,
                 extern_values=(0, 1), packed_clone=True),
    n=(400, 6000), corpus=["common", "C17"],
    aspects=["verdict", "vis", "derive", "repr", "enum_repr", "doc", "items"],
    monitors=[mon_c17],
    nontrivial=lambda res: res.hv[0] == "ok" and res.case.get("exp") and len(res.case["exp"]["types"]) + len(res.case["exp"]["enums"]) >= 1,
    rule="gen.py with doc comments (0..3 lines, 15% of them empty) on 60% of modules/types/enums/fields/functions, every pub/private combination, marker attributes on "
         "60% of items (only satisfiable ones), 20% packed; non-trivial = accepted with >= 1 type or enum",
    level_text="Proved in Coq (Properties/C17.v): the marker scan and the printed derive list (copyable -> Copy+Clone, cloneable -> Clone, defaultable -> Default), packed -> repr(C, packed) "
               "without align, doc values joined and printed line for line incl. empty lines (doc_lines roundtrip), generated regions / vftable pointer / placeholders private and undocumented. On the emitted text, in terms of the declaration (EmitMarkers*.v), for every declared item of an accepted collision-free build: C17_emitted_type (public iff declared pub; derives exactly Copy+Clone / Clone / +Default per the markers; repr(C, packed) iff packed, else repr(C, align(N)); doc lines as declared in order; no other attribute), C17_emitted_fields (every emitted field is generated -- private, undocumented -- or the counterpart of a declared statement with its visibility and docs), C17_emitted_enum, C17_emitted_impl_functions, C17_emitted_vftable_slots, C17_emitted_inherited_wrappers / C17_emitted_wrappers_origin (inherited copies at any depth carry the visibility and docs of a declared function), and 'on no other item': C17_no_doc_on_type_helpers / _enum_helpers, C17_emitted_module_docs. "
               "Correspondence compares visibility, derives, repr and doc attributes of every emitted node; the monitor recomputes all of them from the description and checks that helper items carry no doc.",
    level_note="Trusted: Coq kernel; model validated by this run's correspondence; doc lines containing a line break are outside the doc theorem's hypothesis (they split, as rustdoc would).",
)
PROPS["C14"] = dict(
    profile=dict(modules=(1, 4), p_nested_mod=0.5, p_backend=0.6, extern_values=(0, 3), externs=(0, 2), types=(0, 4), enums=(0, 2), p_vftable=0.4, p_extern_only_module=0.15, p_dotted_dirs=0.08),
    n=(400, 6000), corpus=["common", "C14"],
    aspects=["verdict", "fileset", "items", "opaque", "extern", "header"],
    monitors=[mon_c14],
    nontrivial=lambda res: res.hv[0] == "ok" and res.case.get("exp") and len(res.case["exp"].get("modules", {})) >= 1,
    rule="gen.py with 1..4 modules in nested directories (depth <= 3), modules without items, backend blocks for rust and another name in all three syntactic forms, "
         "extern types and values; collisions (duplicate type names, a type named like a generated vftable struct) come from the corpus and the findings witnesses; "
         "non-trivial = accepted; the implementation side runs the real pyxis::build into a fresh directory which is then listed recursively",
    level_text="Proved in Coq (Properties/C14.v): one file per non-root module at module path + .rs; a file = header, rust prologues in source order, the module's registry items "
               "each once sorted by path, extern accessors sorted by name, rust epilogues; other backends excluded; extern/predefined items emit nothing; a second definition of a path is rejected. End to end (FilesWhole.v, readers on the emitted tokens): C14_files_whole -- for every accepted collision-free build of an input with distinct module paths the written files are exactly one per non-root input module, each file is rust prologue (the input's rust blocks only) + body without opaque text + rust epilogue, and the struct/enum items read back from the file are a permutation of the module's declarations plus one <T>Vftable per vftable block (C14_declared_names_distinct: pairwise distinct, hence exactly once; C14_file_names_distinct). "
               "Correspondence compares the set of written files (real directory listing) and the ordered item list of each file; the monitor recounts structs/enums/vftable structs/accessors against the declarations "
               "and checks prologue-first / epilogue-last / foreign text absent from the generated texts.",
    level_note="Trusted: Coq kernel; model validated by this run's correspondence. Not modelled: glob, directory creation, file writes (exercised through the real build). A user type named like a generated "
               "<T>Vftable struct is known finding F4b.",
)

import c13  # noqa: E402
PROPS["C13"] = dict(
    runner=c13.runner, aspects=["verdict"], n=(200, 3000), corpus=["common", "C13"],
    profile=dict(p_pub=1.0, p_backend=0.2, p_markers=0.4, modules=(1, 3), p_nested_mod=0.4, p_vftable=0.4, p_base=0.4, p_impl=0.5, p_vfunc_no_self=0.01),
    rule="gen.py with every item public (the property's fragment: public types for cross-module use), power-of-two alignments, arrays of <= 5 elements, 1..3 modules incl. nested ones, "
         "at pointer width 8; every accepted crate among the first 48 (quick) / 1500 (thorough) is assembled (module tree, extern types supplied, ABI strings normalised to \"C\") and "
         "type-checked by rustc; non-trivial = distinct accepted crate that went through rustc",
    level_text="Proved in Coq (Properties/C13.v). On the emitted text, for every accepted collision-free build (EmitPaths.v, PathsClosed.v, PathsWhole.v): every path read back from the field types of every struct item (vftable structs included), every enum repr, the signature of every function of every inherent impl and every extern accessor of every written file is a Rust built-in, a declared extern type of the input, or the name of a struct/enum item emitted in the file of its parent module (C13_emitted_*_resolve; the final registry is closed under mentions: C13_registry_closed); the emitted size check transmutes between equal sizes (C13_emitted_size_check_holds). Derives (EmitDefault.v): a struct derives Default iff declared defaultable and then every field, padding included, satisfies Rust's rule for Default -- primitive, array of at most 32, or an item whose own emitted definition derives Default (an enum with exactly one #[default] variant) -- exactly when array lengths are <= 32 and no field is a by-value void (C13_emitted_default_fields; the two exceptions are proved witnesses: outside the documented fragment / finding F9); Copy always comes with Clone; copyable/cloneable are not validated (F17, C13_copy_refuted). Per attempt (theorems named _partial): every path in a resolved type is a registry entry; the size-check transmute is between equal sizes; the alignment attribute is a power of two; "
               "Default is satisfiable for defaultable types. Whether rustc accepts the whole crate is NOT a theorem: it is decided on every run by rustc itself on the implementation's emitted files (the monitor/oracle). "
               "On the unchanged tree rustc rejects only inputs in listed known-finding classes (F9, F10, F12a-c, F13, F14, F17, F19), each recognised by error code plus a predicate on the input; any other rejection is a violation.",
    level_note="Trusted: Coq kernel for the partial theorems; rustc 1.95 (host, 64-bit) as the authority on type-checking; the crate assembly of tools/rustc_oracle.py (module tree, supplied extern types, ABI normalisation as the property allows). "
               "The struct/enum definitions of the same inputs regenerated at pointer width 4 are additionally compiled for i686-pc-windows-msvc by the nightly compiler without the core library (real ABI strings kept); function bodies are not compiled for a 32-bit target.",
    technique="Coq proofs of the clauses pyxis itself must guarantee + rustc type-check oracle on the emitted crate",
)

import c12  # noqa: E402
PROPS["C12"] = dict(
    runner=c12.runner, aspects=["verdict"], n=(1500, 40000),
    rule="tools/c12.py: per 10 inputs 2 token soups (vocabulary of keywords, punctuation, boundary numbers, raw identifiers, non-ASCII), 3 token-level mutations of valid generated files, "
         "2 valid files with 1..3 integers replaced by boundary values (2^31, 2^32, 2^63-1, 2^63, 2^64-1, 2^64, 2^128, negative, suffixed), 1 deep/long input (pointer and array nesting up to 800, 2400 fields), "
         "1 cyclic module/type graph, 1 absurd-number or misuse pattern; plus API cases (pointer sizes 0,1,2,3,5,16,2^31; a module added twice; the root module replaced; invalid identifiers). Each case runs in a harness process "
         "with a wall-clock bound; distinct = distinct input; every distinct input is non-trivial for this property",
    level_text="Proved in Coq (Properties/C12.v): the resolution loop terminates within 1 + #unresolved rounds for every item-count-preserving schedule (all hook schedules, hence all hash orders); the alignment check's unwraps are unreachable; "
               "size/offset/lcm arithmetic is checked (no wrapped value); C12_front_half_never_panics / C12_front_half_total: for EVERY input, pointer width and schedule the model's front half (registration, loop, finish_build) ends in accepted / error value / no-progress error, never in a panic or out of fuel; C12_emitter_fuel_suffices: the back end's hierarchy walk never exhausts its fuel on an accepted build (no unbounded recursion in write_all); C12_emitter_never_panics: for every accepted build of an input whose declared names are identifiers (decidable names_fine) write_all does not panic -- every format_ident! site gets an identifier, the generated names are proved to be identifiers -- and C12_model_pipeline_total: front half + back end end in files / error value / no-progress error; the raw-identifier input of F6f is the proved witness that the names hypothesis is needed. Everything the model cannot exhibit (lexer, syn recursion, format_ident!, time, memory) is decided by the monitor: no generated input may make the real pyxis panic, hang or crash, "
               "both entry points must agree, parse errors must carry file:line:column inside the file, and for inputs that parse the model must agree on the verdict class. Known findings: raw identifiers (F6f), pointer size 0 through the API (F6g), invalid identifiers through the API (F6i).",
    level_note="Trusted: Coq kernel; model validated by this run's correspondence; the process-level bound (10 s per case) as the definition of 'hang'; only the debug profile is exercised (overflow checks on).",
    technique="Coq termination/no-panic proofs on the model + bounded-process robustness monitor on the real implementation",
)

import c20  # noqa: E402
PROPS["C20"] = dict(
    runner=c20.runner, aspects=["verdict"], n=(400, 8000),
    rule="tools/c20.py: structured random descriptions (1..3 types with explicit/implicit addresses, unknown<N> gaps, optional own vftable with indices, size/align attributes; 0..2 enums with explicit/implicit values) "
         "and 1..3 applicable rewrites from the family (address explicit/implicit, gap <-> address, natural size, index explicit/implicit, enum value explicit/implicit, other number spellings, reordering of definitions); both sides are built by the real "
         "pyxis and every output file is compared by content hash; non-trivial = accepted and the two texts differ",
    level_text="Proved in Coq (Properties/C20.v), each as 'the model computes the same result': explicit address = natural address, size attribute = natural size, index = natural slot, enum value = implicit value. "
               "Gap <-> address: the placement fold ends at the same offset with region lists that differ only in how the unnamed gap region was created, and the naming pass maps both to the same regions (C20_gap_is_address, C20_naming_ignores_gap_spelling). "
               "C20_reorder_same_output: reordering the definitions inside the modules of a collision_free, clean input gives the same verdict class and, when accepted, exactly the same files, under any two schedules. C20_rewritten_same_output (Rewrite*.v): the same END TO END for the other rewrites -- two inputs whose definitions are related one by one by any number of explicit-index / explicit-enum-value / explicit-address / gap<->address / natural-size steps (either direction) give the same verdict class and, when accepted, exactly the same files, under any two schedules; for the semantic rewrites the written address / size must be the one the original reaches, which needs checking only in the original's final registry (C20_rewritten_same_output_accepted); composes with reordering. C20_number_spelling_irrelevant (IntLit.v): for every number, every two spellings (decimal, hex in either case, binary, octal, any underscores, any integer suffix) are read as the same value by the lexical model of proc_macro2 + syn + base10_parse, hence give the same token and AST (the lexical model is tied to the real lexer by C18's correspondence D). All rewrites, again on the real code, are decided by the monitor: original and rewritten description built by the real pyxis, outputs byte-identical.",
    level_note="Trusted: Coq kernel; model validated by this run's correspondence (verdict, file set, registry on both sides); byte identity is observed on the implementation (content hash of every output file).",
)

import c09  # noqa: E402
PROPS["C09"] = dict(
    runner=c09.runner, aspects=["verdict"], n=(40, 600), corpus=["common", "C09"],
    rule="tools/c09.py: dependency-rich inputs (2..5 user items in 1..3 modules, by-value nesting, bases, vftables, forward references, 15% near-misses); for each: every first-round "
         "resolution order when <= 5 items (sampled beyond) plus random full schedules through the cfg(pyxis_verif) hook (24 quick / 120 thorough schedules per input), 4 / 8 builds without the hook (real hash seeds, same and fresh processes), "
         "and up to 6 / 24 permutations of module-addition order through the API; all outcomes (verdict, no-progress set, content hash of every output file) must coincide; non-trivial = accepted input with >= 2 user items",
    level_text="Proved in Coq (Properties/C09.v): order-independence of any worklist loop of pyxis's shape under monotone attempts (Confluence.v: outcome class and final state equal for every pair of permutation-valued order functions, any number of items); "
               "C09_attempt_monotone: the model's real attempt satisfies M1+M2 under two decidable side conditions (collision_free: no input item named like a generated <T>Vftable struct; clean: no module/use path or type name ends in Vftable -- without them the claim is false of pyxis itself: open findings F4b, F7b); "
               "C09_pyxis_resolve_order_independent: hence for EVERY input meeting them and ANY two permutation-valued order functions (all hook schedules: C09_hook_schedules_are_permutations) the whole front half ends in the same verdict class with the same resolved value for every input item (simulation of resolve_loop by the abstract loop, OrderIndep.v). "
               "C09_output_order_independent: and two accepted runs of the model write exactly the same files (the emitter reads the registry as a map and item paths up to permutation; the final registries agree on all keys). "
               "What the model cannot say (real hash maps, the file system, process state) is decided on the real code by the monitor: schedule enumeration through the hook, module-order permutations, repeated and fresh-process builds, byte comparison.",
    level_note="Trusted: Coq kernel; the 10-line hook in TypeRegistry::unresolved (orders by a caller-chosen permutation of the sorted paths; with the guard off the code is unchanged); model validated per schedule by this run's correspondence.",
    technique="Coq proof of confluence (abstract) + monotonicity of the model's attempt + simulation (order independence of the model's front half); exhaustive/sampled schedule enumeration on the real implementation through a cfg-guarded hook",
)

PROPS["C10"] = dict(
    generator=gen_special.gen_c10, n=(600, 10000), corpus=["common", "C10"],
    aspects=["verdict", "noprogress_set", "items", "fn_sig", "registry", "fileset"],
    monitors=[mon_c10],
    nontrivial=lambda res: res.case.get("exp") and "c10" in res.case["exp"] and res.case["exp"]["c10"]["n"] >= 3,
    rule="tools/gen_special.py gen_c10: random dependency graphs over 2..12 types/enums in 1..4 modules (every module imports the others): by-value fields, arrays, bases, enum base types, "
         "pointers (free to point into cycles); 45% acyclic and fully defined, the rest with by-value back edges and/or undefined names in fields, enum bases, parameters, return types, extern values; "
         "the expected set of unresolvable items is computed from the graph (least fixpoint of 'resolvable'); non-trivial = graph with >= 3 items",
    level_text="Proved in Coq (Properties/C10.v): a self-supporting set of items (each has an undefined field-type name or depends by value on a member) never resolves, and a no-progress end state is self-supporting "
               "(Confluence.v, abstract, any number of items); the loop needs at most 1 + #items rounds (C12); pointer sizes never read the pointee; a field with an undefined type defers, an undefined parameter or return type rejects (C05); "
               "nothing is dropped: every declared parameter and the return type reach the emitted signature. For the model's real attempt: N1 (C10_attempt_N1), hence C10_stuck_set_never_accepted (an undefined field type or a by-value cycle keeps every schedule from accepting; C10_cycle_example) and C10_stuck_set_is_order_independent (the no-progress verdict and its item set do not depend on the schedule). The converse (StuckConverse.v): C10_attempt_N2 (every deferral of the model's real attempt has a cause: an undefined name, an unresolved by-value dependency, or an overflow of usize -- where model and pyxis defer forever), C10_noprogress_list_exact/_greatest (the error's list is exactly the set of unresolved items, non-empty, and the greatest self-supporting set), C10_wellfounded_never_noprogress (all names defined, no overflow, by-value embedding well founded => no schedule ends in the no-progress error; C10_no_overflow_decidable gives a decidable sufficient condition for the overflow hypothesis). Not proved: that an overflow cause always defers (tightness). "
               "The monitor decides the property on the real code against the graph-theoretic expectation: accepted iff all names defined and by-value embedding acyclic; the no-progress error lists exactly the unresolvable items; accepted builds contain every item.",
    level_note="Trusted: Coq kernel; model validated by this run's correspondence (verdict, no-progress set, items, signatures); the expectation is computed by the generator from the graph it drew.",
)

import c19  # noqa: E402
PROPS["C19"] = dict(
    runner=c19.runner, aspects=["verdict"], n=(250, 5000),
    rule="tools/c19.py: accepted multi-module inputs (2..4 modules, cross-module use lines); an observed module and its import closure (use lines as module paths or parents of type paths); "
         "one change outside the closure (a new module, removal of an unimported module, a type / enum / singleton type added to an unrelated module); both sets built by the real pyxis; the observed module's file compared by content hash. "
         "10% of the pairs are *related* changes (sanity: they must be able to alter the file). non-trivial = both accepted and the change is unrelated",
    level_text="Proved in Coq (Properties/C19.v): name lookup consults the registry only at scope-derived paths (so entries elsewhere are invisible to it); known sizes/alignments are stable under registry extension; a module's file is assembled only from its own paths/values/blocks (C14). "
               "C19_locality_abstract: for any two loops of pyxis's shape, the second over more items, whose attempts agree on the first's items (+ M1), accepted builds give the first's items the same values; C19_unrelated_modules (+ _externs): the concrete instance for the model -- two inputs, the second with additional modules, both collision_free and clean, decidable no_capture (the additional items are no lookup candidates of the first input): when both are accepted, under any two schedules, every item and every extern value of the first input has the same resolved value. C19_unrelated_module_file / C19_unrelated_files_written: under the same hypotheses the emitted FILE of every module of the first input is identical in the two builds (equality of outcomes), and every (path, content) the smaller build writes is written identically by the bigger one. no_capture is sufficient, not necessary, and only accepted/accepted pairs are treated; the monitor decides the property on the real code by byte comparison of the observed module's file across unrelated changes.",
    level_note="Trusted: Coq kernel; model validated by this run's correspondence on both sides of every pair; closure computed by the generator from the use lines it wrote.",
)

import c18  # noqa: E402
PROPS["C18"] = dict(
    runner=c18.runner, aspects=["parser_model"], n=(500, 20000),
    rule="tools/c18.py: A. abstract modules over the full grammar (module attributes, use paths incl. the generics hack, extern types/values, types with fields, `_` fields and vftable blocks, enums, impl blocks, backend blocks in all three forms; "
         "attribute shapes ident / function / assignment; type nesting up to 5; integers up to the isize/usize limits) printed with randomised whitespace, line/block comments, trailing commas, several attributes per bracket, doc comments vs #[doc], "
         "decimal/hex/binary/octal/underscore literals, escaped and raw strings, arbitrary interleaving of the six statement classes; the real parser must return exactly the generated module. "
         "B. 3000 (quick) type and attribute-list strings, 35% of them token-mutated: the Coq parser on the real lexer's token stream must agree with the real parser. non-trivial = distinct module whose AST has > 200 characters",
    level_text="Proved in Coq (Properties/C18.v): parse(print x) = x for types (any nesting, incl. the generics hack), expressions and attribute lists (any length), and C18_module_roundtrip: parse_module (print_module m) = Some m for EVERY well-formed module over the whole grammar "
               "(functions, fields, vftable blocks, type/enum definitions, impl, extern types/values, use, backend blocks, module attributes, any interleaving of item kinds), with a decidable well-formedness predicate. Integer literals (IntLit.v): the value and suffix of a spelling as proc_macro2's lexer and syn read it, and base10_parse::<isize>/<usize> on top: every spelling of n (any base, underscores, hex case, admissible suffix) reads as n, the printer's decimal spelling reads back, reading succeeds exactly in range (C18_literal_value_of_every_spelling, C18_decimal_literal_roundtrip, C18_isize_reading_spec, C18_usize_reading_spec); the lexical model is compared with the real parser on 1200 spellings per run (part D). The rest of lexing and error positions are not modelled (the token stream is the real lexer's); "
               "spellings other than the printer's canonical one are covered by the monitor: the real parser on randomised concrete syntax of generated abstract modules must return the identical module, and the Coq parsers (types, attribute lists, whole modules) and the real parser are run on the same token streams (valid and token-damaged) and must agree on acceptance and on the result.",
    level_note="Trusted: Coq kernel; tools/c18.py's printer (it defines 'written out in concrete syntax'); proc_macro2 as the lexer both parsers consume.",
    technique="Coq round-trip proofs for the modelled sub-grammars + differential testing real parser vs generated ASTs and vs the Coq parser",
)

NOT_YET = {}

import c03  # noqa: E402
PROPS["C03"] = dict(
    runner=c03.runner, aspects=["verdict"], n=(0, 0),
    rule="exhaustive enumeration of single-type descriptions over built-in field types on the bound stated in "
         "`bound`, plus seeded random larger descriptions; every description is judged by the real pyxis "
         "(in-process API), by the Coq spec realisableb and by the arithmetic core acceptb (both extracted), and a "
         "sample of 3000 also by the full model; non-trivial = >= 1 field and (accepted, or an address or a size is written)",
    level_text="Proved in Coq for all field lists, numeric values and pointer sizes: the arithmetic core of the acceptance "
               "decision (C03Core.accept: resolve_regions' placement, the size padding and the alignment checks, incl. the power-of-two "
               "check) accepts exactly the realisable descriptions (C03Core.realisable, written from the property text). "
               "The implementation's own verdict is compared with the *spec* (realisableb, reflected in Coq) on every "
               "enumerated description -- exhaustively on the stated small scope -- so the check does not go through the model at all for the iff; "
               "C03_model_decision_refines_core / C03_model_accepts_iff_realisable: the model's decision code (placement fold, size padding, naming, alignment checks) returns Ok exactly when the core accepts, i.e. iff the description is realisable; "
               "C03_type_build_accepts_iff (C03Whole.v): the model's whole type_build (attribute scan, statement loop, placement, alignment checks) returns Ok iff the attributes are well formed and the description is realisable, with accept's size and alignment, and an error value -- never a deferral or panic -- otherwise, for every description in the decidable class class_okb (plain fields of known size and power-of-two alignment; no vftable block, base field or defaultable marker); model, core and implementation are still compared on a sample of 3000 per run.",
    level_note="C03_bases_type_build_accepts_iff / C03_vft_type_build_accepts_iff (C03Bases.v, C03Vft.v): the same equivalence for descriptions with #[base] fields, an impl block, the defaultable marker and a vftable block (own or shared pointer): Ok iff attributes well formed, realisable (a base is one member of its type's size and alignment; the pointer first) and the decidable extras the code demands; an error value otherwise. "
               "Trusted: Coq kernel; the spec C03Core.realisable as the reading of the property text (two interpretations fixed in DESIGN.md section 7: "
               "zero-length arrays keep their place but are not members; 'sole member' counts gaps); sizes/alignments of built-in types per pointer width are inputs "
               "computed by tools/c03.py; field alignments are powers of two (wf_fields).",
    technique="Coq proof of accept <-> realisable on the arithmetic core; exhaustive small-scope + random comparison of the real verdict with the reflected spec",
)

PROPS["C01"].update(
    layout_oracle=True,
    level_text="Proved in Coq for every registry state and every description: when the model's type_build accepts, the emitted "
               "struct laid out by the Rust Reference's repr(C)/packed algorithm (RustLayout.v) has every region at the prefix "
               "sum of the preceding region sizes, with no compiler padding, size and alignment as resolved "
               "(C01 theorems in coq/Properties/C01.v). The model is tied to /repo on every run by the correspondence "
               "check (same inputs through real pyxis and the extracted model, struct fields/types/repr compared) and "
               "the declared offsets are re-derived from the implementation's own emitted files by an independent layout "
               "calculator (monitor). C01_whole_build: the same end to end -- every struct of every accepted build (any schedule, width, modules; input collision_free, decidable, false without it: F4b), with the sizes of the FINAL registry. C01_emitted_struct: the same about the EMITTED item -- the module's file contains the struct (one field per region with its name, type tokens, visibility, docs; repr; derives) and its size check, and the Reference layout computed from that emitted item gives the resolved size/alignment and the declared offsets.",
    level_note="Trusted: Coq kernel; the hand-written model (validated by correspondence on generated inputs only); RustLayout.v as "
               "a transcription of the Rust Reference (validated by the independent calculator tools/pylayout.py on the real files and, at pointer width 8, by rustc itself: the emitted crate is compiled with const assertions offset_of!(T, f) == declared address, 40 crates quick / 600 thorough; at pointer width 4 (and 8 again) by the nightly compiler without core for i686-/x86_64-pc-windows-msvc on the emitted struct/enum definitions, -Zprint-type-sizes offsets compared with the declared ones, 80 crates quick / 1200 thorough); "
               "by-value void fields are a known finding class (F9) and excluded.",
)
PROPS["C02"].update(
    layout_oracle=True,
    level_text="Proved in Coq (coq/Properties/C02.v): for every accepted struct attempt the resolved size is the sum of the "
               "region sizes, equals a declared #[size(N)], and the Rust Reference layout of the emitted "
               "repr(C, align(A)) / repr(C, packed) struct has exactly the resolved size and alignment. Correspondence compares the "
               "registry (size, alignment per item, read through the public API), repr attributes and size-check literals; "
               "the monitor recomputes every emitted item's layout from the implementation's files. C02_whole_build / C02_items_come_from_attempts / C02_sizes_never_change: end to end for every accepted collision_free build -- every item comes from one attempt whose known sizes are unchanged in the final registry. Generated vftable structs (EmitVftLayout.v): C02_emitted_vftable_size_align -- the Reference layout computed from the EMITTED <T>Vftable struct equals the size/alignment of the generated item in the final registry (n*ptr, ptr) and what size_of/align_of answer for the type; the emitted size check asserts the same number.",
    level_note="Trusted: Coq kernel; hand-written model validated by the correspondence of this run; RustLayout.v is a transcription of the Reference "
               "(checked against pylayout on the real files and, at pointer width 8, against rustc itself: const assertions size_of/align_of == resolved on the emitted crate, 40 crates quick / 600 thorough; at pointer width 4 and 8 against the nightly compiler's -Zprint-type-sizes for i686-/x86_64-pc-windows-msvc on the emitted definitions compiled without core, 80 crates quick / 1200 thorough), not proved against rustc.",
)

# every open finding of a property is also a witness theorem about the model (coq/theories/RefutedWitnesses*.v)
for _pid, _txt in {
    "C01": "Where the property is false of pyxis (open finding F9, by-value void) the model is false too: C01_void_by_value_refuted_F9.",
    "C02": "Where the property is false of pyxis (open findings F4b, F9) the model is false too: C02_vftable_named_type_replaced_refuted_F4b, C02_void_by_value_refuted_F9.",
    "C07": "Open findings F24 and F10 are theorems about the model: C07_inherited_rename_collides_refuted_F24, C07_receiverless_forward_refuted_F10.",
    "C08": "Open findings F12a-c are theorems about the model: C08_enum_without_variants_refuted_F12a, C08_enum_struct_base_refuted_F12b, C08_enum_duplicate_discriminant_refuted_F12c (F2: C08_range_refuted).",
    "C09": "Without the two side conditions the claim is refuted on the model with concrete schedules: C09_order_dependence_F4b_refuted (different verdicts at width 4, different files at width 8), C09_order_dependence_F7b_refuted, C09_order_dependence_F25_refuted (accepted under one schedule, the no-progress error under another).",
    "C13": "Each open finding of this property is a witness theorem on the model (accepted input, emitted item that rustc rejects): C13_*_refuted_F12a/F12b/F12c/F13/F14/F19/F21/F10/F24.",
    "C14": "Without collision_free the claim is refuted on the model: C14_vftable_named_type_replaced_refuted_F4b (open finding F4b).",
}.items():
    PROPS[_pid]["level_text"] = PROPS[_pid]["level_text"].rstrip() + " " + _txt

# ------------------------------------------------------------------------------------------------
# findings


def load_findings():
    p = os.path.join(VERIF, "known_findings.json")
    if not os.path.exists(p):
        return []
    return json.load(open(p)).get("findings", [])


def witness_files(f):
    base = os.path.join(VERIF, f["witness"])
    files = {}
    for root, _, fns in os.walk(base):
        for fn in fns:
            if fn.endswith(".pyxis"):
                full = os.path.join(root, fn)
                files[os.path.relpath(full, base)] = open(full, encoding="utf-8", errors="replace").read()
    return files


def run_findings(pid, scratch):
    """re-runs the witnesses of every listed finding of this property.
    returns (known_lines, regressions, notes)"""
    findings = [f for f in load_findings() if pid in f.get("properties", [])]
    if not findings:
        return [], [], []
    cases = [dict(id=f["id"], ptr=4, schedule=[], files=witness_files(f)) for f in findings]
    res = engine.run(cases, scratch, want_model=False)
    known, regress, notes = [], [], []
    for f, r in zip(findings, res):
        dump = " ".join(sx.show(v) for v in r.hfiles.values() if v is not None)
        if f["status"] == "finding":
            d = f["defect_shows_as"]
            shows = r.hv[0] == d["verdict"] and all(x in dump for x in d.get("dump_contains", []))
            if shows:
                known.append("KNOWN-FINDING: property=%s %s [%s, %s]" % (pid, f["what_fails"], f["id"], f["class"]))
            else:
                notes.append("finding %s no longer reproduces on its witness (verdict %s)" % (f["id"], r.hv[0]))
        else:
            e = f["expect_now"]
            ok = r.hv[0] == e["verdict"] and all(x in dump for x in e.get("dump_contains", [])) \
                and all(x in r.hfiles for x in e.get("files", []))
            if not ok:
                regress.append(dict(clause="regression of fixed finding %s" % f["id"], detail=f["what_failed"],
                                    impl_verdict=list(r.hv), case=summarise_case(r.case)))
    return known, regress, notes


def match_finding(findings, pid, fail):
    """a failure is a known finding when a listed *open* finding of this property names its class"""
    for f in findings:
        if f.get("status") != "finding" or pid not in f.get("properties", []):
            continue
        if fail.get("kf") and fail["kf"] == f.get("class"):
            return f
    return None


# ------------------------------------------------------------------------------------------------
# runner


# which properties a near-miss of the generator belongs to: accepting it violates them
MISS_PROPS = {
    "overlap by one": ["C01", "C02"], "address off alignment by one": ["C01", "C02"], "zero-sized field off alignment by one": ["C01", "C02"], "default alignment below a member's alignment": ["C01", "C02"], "size one too small": ["C02"],
    "alignment not a power of two": ["C02", "C13"], "packed and align": ["C02"],
    "vfunc index below position": ["C04"], "vftable size below slots": ["C04"],
    "impl function without address": ["C05"], "impl function named like a virtual function of the type": ["C05"], "impl block on an extern type": ["C05"],
    "size not a multiple of the alignment": ["C01", "C02"], "unresolvable parameter type": ["C05", "C10"], "unresolvable return type": ["C05", "C10"], "extern value without address": ["C15"], "extern type without align": ["C02"],
    "defaultable without default": ["C08"], "default without defaultable": ["C08"], "two defaults": ["C08"],
    "derived vftable omits the last base slot": ["C06"],
    "derived vftable ends inside the base's trailing padding": ["C06"],
    "derived vftable declares a base function one slot early": ["C06"],
    "derived vftable slot differs from the base's: name": ["C06"], "derived vftable slot differs from the base's: receiver": ["C06"],
    "derived vftable slot differs from the base's: cc": ["C06", "C16"], "derived vftable slot differs from the base's: ret": ["C06"],
    "derived vftable slot differs from the base's: arg_count": ["C06"], "derived vftable slot differs from the base's: arg_type": ["C06"],
}


def mon_near_miss(pid, res):
    exp = res.case.get("exp")
    if not exp or not exp.get("miss") or res.hv[0] != "ok":
        return []
    if pid in MISS_PROPS.get(exp["miss"], []):
        return [dict(clause="%s.accepted_near_miss" % pid, detail="the description violates the property's acceptance condition (%s) but was accepted" % exp["miss"])]
    return []


def gen_cases(pid, prop, n, seed):
    cases = []
    base = int(hashlib.sha256(("%s/%d" % (pid, seed)).encode()).hexdigest()[:12], 16)
    for i in range(n):
        ptr = 4 if i % 2 == 0 else 8
        if prop.get("generator"):
            files, exp = prop["generator"](base + i, ptr)
        else:
            files, exp = gen.generate(base + i, ptr, prop.get("profile"))
        cases.append(dict(id="%s-g%d" % (pid, i), ptr=ptr, schedule=[], files=files, exp=exp, gseed=base + i))
    return cases


def summarise_case(case):
    return dict(id=case["id"], ptr=case.get("ptr"), schedule=case.get("schedule"),
                files=case.get("files"), gseed=case.get("gseed"))


def hyps_key(m):
    """which hypotheses of the whole-build / order-independence theorems the case meets (evaluated by the model)"""
    h = sx.field(m, "hyps")
    if not h:
        return "theorem_hyps:unknown"
    d = {}
    for e in h:
        if isinstance(e, list) and len(e) == 2:
            d[str(e[0])] = str(e[1])
    if "collision_free" not in d:
        return "theorem_hyps:no_input_state"
    return "theorem_hyps:collision_free=%s,clean=%s" % (d["collision_free"], d.get("clean"))


LAYOUT_PROFILE = dict(p_pub=1.0, p_backend=0.0, p_markers=0.3, modules=(1, 2), p_nested_mod=0.3, p_vftable=0.4, p_base=0.5, p_impl=0.3,
                      p_vfunc_no_self=0.0, p_packed=0.2, p_align=0.3, p_size=0.4, p_gap=0.3, p_addr=0.5, p_zero_array=0.1, miss=0.0,
                      extern_values=(0, 0), p_singleton=0.0)


def rustc_layout_stage(pid, tier, seed, scratch):
    """rustc itself as the authority.  (a) pointer width 8, the host: the emitted crate is compiled with
    compile-time assertions -- size_of/align_of of every item = what pyxis resolved (C02), offset_of of every
    declared field = the declared address (C01).  (b) pointer width 4 (and 8 again): the emitted struct / enum
    definitions alone are compiled by the nightly compiler without the core library for i686-pc-windows-msvc
    (x86_64-pc-windows-msvc), and its layout dump (-Zprint-type-sizes) is compared with the resolved sizes /
    alignments and the declared offsets.  Crates that rustc rejects for another reason (listed findings,
    visibility outside the documented fragment) are not usable and are counted."""
    import rustc_oracle
    from concurrent.futures import ThreadPoolExecutor
    n = 40 if tier == "quick" else 600
    profile = LAYOUT_PROFILE if pid in ("C01", "C02") else PROPS[pid]["profile"]
    tags = {"C01": ("C01",), "C02": ("C02",), "C08": ("C02", "C08")}[pid]
    cases = []
    for i in range(n):
        files, exp = gen.generate(seed * 7919 + 17 * i + 3, 8, profile)
        cases.append(dict(id="lay-%d" % i, ptr=8, schedule=[], files=files, exp=exp, text=True, via="host"))
    for i in range(2 * n):
        ptr = 4 if i % 4 else 8
        files, exp = gen.generate(seed * 104729 + 31 * i + 5, ptr, profile)
        cases.append(dict(id="lay%d-%d" % (ptr, i), ptr=ptr, schedule=[], files=files, exp=exp, text=True, via="nocore"))
    failures, counts = [], collections.Counter()
    for b0 in range(0, len(cases), 200):
        results = [r for r in engine.run(cases[b0:b0 + 200], scratch, want_model=False) if r.hv[0] == "ok"]

        def job(r):
            name = re.sub(r"\W", "_", r.case["id"])
            try:
                if r.case["via"] == "host":
                    return rustc_oracle.layout_check(r.h, r.case["exp"], scratch, name) + ([],)
                return rustc_oracle.nocore_layout(r.h, r.case["exp"], scratch, name, r.case["ptr"])
            except Exception as e:  # noqa
                return (False, ["oracle-error"], str(e), [])
        with ThreadPoolExecutor(P.JOBS) as ex:
            verdicts = list(ex.map(job, results))
        for r, (ok, codes, err, bad) in zip(results, verdicts):
            via = r.case["via"] if r.case["via"] == "host" else "nocore_w%d" % r.case["ptr"]
            if ok:
                mine = [t for (tag, t) in bad if tag in tags]
                if mine:
                    counts["rustc_layout[%s]:LAYOUT_DIFFERS" % via] += 1
                    failures.append(dict(clause="%s.rustc_layout" % pid, detail="rustc lays the emitted item out differently: %s" % "; ".join(mine[:5]),
                                         case=summarise_case(r.case)))
                elif bad:
                    counts["rustc_layout[%s]:difference_for_the_other_property" % via] += 1
                else:
                    counts["rustc_layout[%s]:all_%s" % (via, "assertions_hold" if via == "host" else "sizes_alignments_offsets_agree")] += 1
                continue
            msgs = sorted(set(re.findall(r"(%s [^\n\"']*)" % pid, err))) if "E0080" in codes else []
            if msgs:
                counts["rustc_layout[%s]:ASSERTION_FAILED" % via] += 1
                failures.append(dict(clause="%s.rustc_layout" % pid, detail="rustc evaluates the layout differently: %s" % "; ".join(msgs[:5]),
                                     case=summarise_case(r.case)))
            elif "E0080" in codes:
                counts["rustc_layout[%s]:assertion_of_the_other_property_failed" % via] += 1
            elif pid == "C08" and "E0081" in codes and not declared_duplicates(r.case.get("exp")):
                counts["rustc_layout[%s]:DUPLICATE_DISCRIMINANT" % via] += 1
                failures.append(dict(clause="C08.rustc_values", detail="rustc for pointer width %d finds two variants with one value although the declared values differ: %s"
                                     % (r.case["ptr"], " | ".join(l.strip() for l in err.split("\n") if "E0081" in l or " as _" in l)[:400]),
                                     case=summarise_case(r.case)))
            elif pid == "C08" and "literal out of range" in err:
                counts["rustc_layout[%s]:LITERAL_OUT_OF_RANGE" % via] += 1
                failures.append(dict(clause="C08.rustc_values", detail="a discriminant literal does not fit its type when compiled for pointer width %d: %s"
                                     % (r.case["ptr"], " | ".join(l.strip() for l in err.split("\n") if " as _" in l)[:300]),
                                     case=summarise_case(r.case)))
            else:
                counts["rustc_layout[%s]:crate_unusable:%s" % (via, ",".join(c[:40] for c in codes if not c.startswith("aborting")))] += 1
    return failures, dict(counts)


def declared_duplicates(exp):
    """does some enum of the description declare two variants whose values coincide in the base type?"""
    for e in ((exp or {}).get("enums") or {}).values():
        bits = 8 * gen.PRIMS[e["base"]][0]
        vals = [v % (1 << bits) for _, v in e["cases"] if v is not None]
        if len(set(vals)) != len(vals):
            return True
    return False


def run_property(pid, prop, tier, seed, scratch, replay=None):
    custom = prop.get("runner")
    if custom:
        return custom(pid, prop, tier, seed, scratch, replay)
    n = prop["n"][0 if tier == "quick" else 1]
    if replay:
        doc = json.load(open(os.path.join(VERIF, replay) if not os.path.isabs(replay) else replay))
        c = doc.get("case") or {}
        cases = [dict(id=c.get("id", "replay"), ptr=c.get("ptr", 4), schedule=c.get("schedule") or [],
                      files=c.get("files", {}), exp=None)]
    else:
        generated = gen_cases(pid, prop, n, seed)
        cases = load_corpus(prop.get("corpus", ["common"])) + generated
        # hurried-author variants of a third of the generated inputs (one or two small edits each): nothing is known
        # about what they should mean, so no monitor applies -- model and implementation must still agree on them
        mrng = random.Random(seed * 31 + 7)
        for c in generated[:max(1, n // 3)]:
            mf, what = gen.semantic_mutation(mrng, c["files"])
            if what != "unchanged":
                cases.append(dict(id=c["id"] + "-mut", ptr=c["ptr"], schedule=[], files=mf, exp=None, mutant=what))
    out = dict(evaluations=len(cases), failures=[], breaks=[], samples=[], notes=[])
    seen = set()
    nontrivial = 0
    dist = collections.Counter()
    aspects = set(prop["aspects"])
    other_aspect_diffs = collections.Counter()
    fullfile_equal = 0
    kf_filter = prop.get("kf_filter")
    first_case = cases[0] if cases else None
    first_verdict = None
    BATCH = 1500      # cases per engine run: keeps memory bounded (a result holds the whole dump)
    for r in (r_ for b0 in range(0, len(cases), BATCH) for r_ in engine.run(cases[b0:b0 + BATCH], scratch)):
        if first_verdict is None:
            first_verdict = r.hv[0]
        dist["impl_" + r.hv[0]] += 1
        if r.case.get("mutant"):
            dist["hurried_author_variant:" + r.hv[0]] += 1
        if r.case.get("exp") and r.case["exp"].get("miss"):
            dist["near_miss:" + r.case["exp"]["miss"]] += 1
        if r.m is None:
            dist["no_model_run(parse error)"] += 1
        else:
            dist[hyps_key(r.m)] += 1
        if r.hv[0] in ("hang", "crash", "missing"):
            out["breaks"].append(dict(aspect="harness", detail="implementation did not answer: %s" % r.hv[0],
                                      case=summarise_case(r.case)))
            continue
        if not r.diffs and r.m is not None:
            fullfile_equal += 1
        for asp, det in r.diffs:
            if asp in aspects:
                out["breaks"].append(dict(aspect=asp, detail=det, case=summarise_case(r.case)))
            else:
                other_aspect_diffs[asp] += 1
        in_kf_class = bool(kf_filter and kf_filter(r.case))
        for mon in prop.get("monitors", []) + [lambda r_, pid_=pid: mon_near_miss(pid_, r_)]:
            for f in mon(r):
                f = dict(f)
                f["case"] = summarise_case(r.case)
                if in_kf_class:
                    f["kf"] = prop.get("kf_class", "KF_void_value")
                out["failures"].append(f)
        try:
            nt = bool(prop["nontrivial"](r))
        except Exception:
            nt = False
        h = sha_files(r.case["files"]) + "@%s" % r.case.get("ptr")
        if nt and h not in seen:
            seen.add(h)
            nontrivial += 1
            if len(out["samples"]) < 3 and not r.case.get("corpus"):
                out["samples"].append(dict(id=r.case["id"], ptr=r.case.get("ptr"), files=r.case["files"],
                                           impl_verdict=r.hv[0], model_verdict=r.mv[0] if r.mv else None))
        if replay:
            print("replay: impl verdict %s, model verdict %s" % (r.hv, r.mv))
            for asp, det in r.diffs:
                print("  diff [%s] %s" % (asp, det[:500]))
    out["distinct_nontrivial"] = nontrivial
    out["distribution"] = dict(dist)
    out["distribution"]["diffs_in_other_aspects"] = dict(other_aspect_diffs)
    out["fullfile_equal"] = fullfile_equal
    if not out["samples"] and first_case is not None:
        out["samples"].append(dict(id=first_case["id"], ptr=first_case.get("ptr"), files=first_case["files"], impl_verdict=first_verdict))
    if prop.get("layout_oracle") and not replay:
        fails, counts = rustc_layout_stage(pid, tier, seed, scratch)
        out["failures"].extend(fails)
        out["oracle"] = counts
        out["evaluations"] += sum(counts.values())
    if prop.get("exec_oracle") and not replay:
        # the emitted crate, compiled with a generated driver and RUN on the host: what the wrappers and accessors do
        import exec_oracle
        fails, counts = exec_oracle.exec_stage(pid, tier, seed, scratch)
        out["failures"].extend(fails)
        out.setdefault("oracle", {}).update(counts)
        out["evaluations"] += sum(v for k, v in counts.items() if k in ("exec:all_ok", "exec:FAIL", "exec:fail_for_another_property")
                                  or k.startswith("exec:unusable"))
    return out
