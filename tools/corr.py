"""Correspondence between the model's output and the implementation's: an aspect-tagged diff of the
structured files, so that each property looks only at the part of the output it talks about."""
import sx


def toks(l):
    return " ".join(sx.show(x) for x in l)


def item_key(it):
    k = it[0]
    if k in ("struct", "enum"):
        return "%s:%s" % (k, it[3])
    if k == "fn":
        return "fn:%s" % it[4]
    if k == "impl":
        tr = it[2]
        trs = "notrait" if tr == "notrait" else toks(tr[1:])
        return "impl:%s:%s" % (toks(it[3][1:]), trs)
    if k == "const":
        return "const:%s" % it[3]
    return "%s:%s" % (k, toks(it[1:]))


def split_attrs(attrs):
    """attrs sexp -> dict(derive=set, repr=tuple tokens, doc=[lines], other=[...])"""
    out = {"derive": None, "repr": None, "doc": [], "default": False, "other": []}
    for a in attrs[1:]:
        body = a[2:]
        head = body[0] if body else None
        if head == "derive" and len(body) > 1 and isinstance(body[1], list):
            out["derive"] = frozenset(x for x in body[1][1:] if x != ",")
        elif head == "repr" and len(body) > 1:
            out["repr"] = toks(body[1][1:])
        elif head == "doc":
            v = body[2] if len(body) > 2 else None
            out["doc"].append(v[1] if isinstance(v, list) and len(v) > 1 else toks(body))
        elif head == "default":
            out["default"] = True
        else:
            out["other"].append(toks(body))
    return out


def cmp_attrs(where, ha, ma, out, is_enum=False):
    h, m = split_attrs(ha), split_attrs(ma)
    if h["derive"] != m["derive"]:
        out.append(("derive", "%s: %s vs %s" % (where, h["derive"], m["derive"])))
    if h["repr"] != m["repr"]:
        out.append(("enum_repr" if is_enum else "repr", "%s: %s vs %s" % (where, h["repr"], m["repr"])))
    if h["doc"] != m["doc"]:
        out.append(("doc", "%s: %s vs %s" % (where, h["doc"], m["doc"])))
    if h["default"] != m["default"]:
        out.append(("enum_default", "%s" % where))
    if h["other"] != m["other"]:
        out.append(("attrs_other", "%s: %s vs %s" % (where, h["other"], m["other"])))


def body_shape(body):
    t = toks(body[1:])
    if t.startswith("let f : unsafe extern"):
        return "body_addr"
    if t.startswith("let f = std : : ptr : : addr_of"):
        return "body_vftable"
    if t.startswith("self . ") and "(paren" in t and " as " not in t.split("(paren")[0]:
        return "body_field"
    return "body_other"


def cmp_fn(where, h, m, out, role=None):
    # (fn attrs vis quals name [generics] params ret body)
    hd = {x[0]: x for x in h[5:] if isinstance(x, list)}
    md = {x[0]: x for x in m[5:] if isinstance(x, list)}
    name = h[4]
    cmp_attrs(where, h[1], m[1], out)
    if h[2] != m[2]:
        out.append(("vis", "%s: %s vs %s" % (where, h[2], m[2])))
    sig_aspect = {"accessor": "accessor", "singleton": "singleton", "extern": "extern",
                  "size_check": "size_check", "asref": "asref"}.get(role, "fn_sig")
    if h[3] != m[3] or hd.get("params") != md.get("params") or hd.get("ret") != md.get("ret") \
            or hd.get("generics") != md.get("generics"):
        out.append((sig_aspect, "%s: signature %s | %s" % (where, sx.show(h[3:-1])[:300], sx.show(m[3:-1])[:300])))
    if hd.get("body") != md.get("body"):
        asp = {"accessor": "accessor", "singleton": "singleton", "extern": "extern",
               "size_check": "size_check", "asref": "asref"}.get(role)
        if asp is None:
            sh, sm = body_shape(hd.get("body", ["body"])), body_shape(md.get("body", ["body"]))
            asp = sm if sm != "body_other" else sh
        out.append((asp, "%s: body %s | %s" % (where, toks(hd.get("body", []))[:300], toks(md.get("body", []))[:300])))


def diff_items(h, m, out):
    k = h[0]
    where = item_key(h)
    if k == "struct":
        cmp_attrs(where, h[1], m[1], out)
        if h[2] != m[2]:
            out.append(("vis", "%s: %s vs %s" % (where, h[2], m[2])))
        hf, mf = h[4:], m[4:]
        hn = [f[3] if isinstance(f, list) and f[0] == "field" else sx.show(f) for f in hf]
        mn = [f[3] if isinstance(f, list) and f[0] == "field" else sx.show(f) for f in mf]
        if hn != mn:
            out.append(("fields", "%s: %s vs %s" % (where, hn, mn)))
            return
        for a, b in zip(hf, mf):
            if not (isinstance(a, list) and a[0] == "field"):
                continue
            fw = "%s.%s" % (where, a[3])
            cmp_attrs(fw, a[1], b[1], out)
            if a[2] != b[2]:
                out.append(("vis", "%s: %s vs %s" % (fw, a[2], b[2])))
            if a[4] != b[4]:
                out.append(("field_types", "%s: %s vs %s" % (fw, toks(a[4][1:]), toks(b[4][1:]))))
    elif k == "enum":
        cmp_attrs(where, h[1], m[1], out, is_enum=True)
        if h[2] != m[2]:
            out.append(("vis", "%s: %s vs %s" % (where, h[2], m[2])))
        hv, mv = h[4:], m[4:]
        if [v[2] for v in hv] != [v[2] for v in mv]:
            out.append(("enum_values", "%s: variant names differ" % where))
            return
        for a, b in zip(hv, mv):
            vw = "%s::%s" % (where, a[2])
            cmp_attrs(vw, a[1], b[1], out, is_enum=True)
            if a[3:] != b[3:]:
                out.append(("enum_values", "%s: %s vs %s" % (vw, toks(a[3:]), toks(b[3:]))))
    elif k == "fn":
        name = h[4]
        role = "size_check" if name.endswith("_size_check") else ("extern" if name.startswith("get_") else None)
        cmp_fn(where, h, m, out, role)
    elif k == "impl":
        is_trait = h[2] != "notrait"
        hfns = [x for x in h[4:] if isinstance(x, list)]
        mfns = [x for x in m[4:] if isinstance(x, list)]
        hk = [item_key(x) for x in hfns]
        mk = [item_key(x) for x in mfns]
        if hk != mk:
            out.append(("asref" if is_trait else "methods", "%s: methods %s vs %s" % (where, hk, mk)))
            md = {}
            for x in mfns:
                md.setdefault(item_key(x), x)
            pairs = [(x, md[item_key(x)]) for x in hfns if item_key(x) in md]
        else:
            pairs = list(zip(hfns, mfns))
        for a, b in pairs:
            if a[0] != "fn":
                if a != b:
                    out.append(("methods", "%s: %s" % (where, sx.show(a)[:200])))
                continue
            role = "asref" if is_trait else ("accessor" if a[4] == "vftable" else ("singleton" if a[4] == "get" else None))
            cmp_fn("%s::%s" % (where, a[4]), a, b, out, role)
    elif k == "const":
        cmp_attrs(where, h[1], m[1], [])  # doc text of the placeholder is informational
        if h[2:] != m[2:]:
            out.append(("asref_conflict", where))
        ha, ma = split_attrs(h[1]), split_attrs(m[1])
        if ha["doc"] != ma["doc"]:
            out.append(("conflict_doc", "%s: %s vs %s" % (where, ha["doc"], ma["doc"])))
    else:
        if h != m:
            out.append(("opaque", "%s vs %s" % (sx.show(h)[:200], sx.show(m)[:200])))


def diff_file(path, h, m):
    """h, m: (file attrs items...) ; returns [(aspect, detail)]"""
    out = []
    if h is None or m is None or h[0] != "file" or m[0] != "file":
        if h != m:
            out.append(("unparsable", "%s: %s vs %s" % (path, sx.show(h)[:200], sx.show(m)[:200])))
        return out
    hd, md = split_attrs(h[1]), split_attrs(m[1])
    if hd["doc"] != md["doc"]:
        out.append(("doc", "%s module doc: %s vs %s" % (path, hd["doc"], md["doc"])))
    if hd["other"] != md["other"]:
        out.append(("header", "%s: %s vs %s" % (path, hd["other"], md["other"])))
    hk = [item_key(x) for x in h[2:]]
    mk = [item_key(x) for x in m[2:]]
    if hk != mk:
        only_h = [k for k in hk if k not in mk]
        only_m = [k for k in mk if k not in hk]
        out.append(("items", "%s: only impl %s ; only model %s%s" % (
            path, only_h[:6], only_m[:6], "" if only_h or only_m else " ; order differs")))
        md_ = {}
        for x in m[2:]:
            md_.setdefault(item_key(x), x)
        pairs = [(x, md_[item_key(x)]) for x in h[2:] if item_key(x) in md_]
    else:
        pairs = list(zip(h[2:], m[2:]))
    for a, b in pairs:
        sub = []
        diff_items(a, b, sub)
        out.extend((asp, "%s: %s" % (path, d)) for asp, d in sub)
    return out


ALL_ASPECTS = ["verdict", "fileset", "registry", "items", "fields", "field_types", "repr", "derive",
               "doc", "vis", "enum_repr", "enum_values", "enum_default", "size_check", "singleton",
               "extern", "accessor", "methods", "fn_sig", "body_addr", "body_vftable", "body_field",
               "body_other", "asref", "asref_conflict", "conflict_doc", "opaque", "header",
               "attrs_other", "unparsable", "noprogress_set"]
