"""C09 runner: the same input set under many resolution schedules (hook), module-addition orders
(API), repeated and fresh-process builds (real hash seeds); everything compared byte for byte."""
import collections
import itertools
import json
import math
import os
import random

import sx
import gen
import engine
import props
import pyxlib as P

PROFILE = dict(types=(2, 5), enums=(0, 2), externs=(0, 1), modules=(1, 3), p_user_field=0.7, p_base=0.5, p_vftable=0.5,
               p_forward=0.9, fields=(1, 4), p_impl=0.4, extern_values=(0, 1), p_backend=0.1, miss=0.15, p_array=0.3)


def n_user_items(files):
    import re
    return sum(len(re.findall(r"^\s*(?:pub\s+)?(?:type|enum)\s+\w+", t, re.M)) for t in files.values())


def schedules_for(rng, n, budget):
    """schedules as lists indexed by the number of unresolved items"""
    out = [[0] * (n + 1)]
    first = list(range(math.factorial(n))) if n <= 5 else rng.sample(range(math.factorial(min(n, 12))), 200)
    rng.shuffle(first)
    for k in first[:budget // 2]:
        s = [0] * (n + 1)
        s[n] = k
        out.append(s)
    while len(out) < budget:
        out.append([rng.randrange(math.factorial(min(i, 12))) if i > 1 else 0 for i in range(n + 1)])
    return out


def outcome(r):
    return (r.hv[0], tuple(r.hv[1]) if r.hv[0] == "noprogress" and r.hv[1] else None, tuple(sorted(P.file_hashes(r.h).items())))


def ambiguous_imports(rng):
    """2..3 modules define the same short name with different sizes; the observer imports all of them (as
    types or as modules, in a random order) and uses the name by value, behind a pointer, in a function and
    in an extern value.  Which definition wins is fixed by the order of the use lines -- never by a hash."""
    name = rng.choice(["Handle", "Node", "Vec3"])
    k = rng.randint(2, 3)
    mods = rng.sample(["gfx", "audio", "net", "core::io", "core::math"], k)
    files = {}
    for i, m in enumerate(mods):
        files[m.replace("::", "/") + ".pyxis"] = "pub type %s { pub a: [u8; %d] }\npub type Other%d { pub x: u32 }\n" % (name, 4 * (i + 1), i)
    by_type = rng.random() < 0.5
    order = list(mods)
    rng.shuffle(order)
    uses = "".join("use %s%s;\n" % (m, "::" + name if by_type else "") for m in order)
    files["owner.pyxis"] = uses + (
        "#[packed]\npub type Owner {\n    pub h: %s,\n    pub p: *const %s,\n    pub arr: [%s; 2],\n}\n"
        "impl Owner {\n    #[address(0x1000)]\n    pub fn get(&self, x: *mut %s) -> *const %s;\n}\n"
        "#[address(0x2000)]\npub extern g_h: %s;\n" % ((name,) * 6))
    return files


def case_twins(rng):
    """definitions whose names differ only in letter case (`Point`, `POINT`, `point`): any ordering of the
    emitted items that ignores case leaves their relative order to chance"""
    stems = rng.sample(["Point", "Kind", "Node", "Hdr"], rng.randint(1, 3))
    items = []
    for st in stems:
        forms = [st, st.upper(), st.lower(), st[0].lower() + st[1:].upper()]
        rng.shuffle(forms)
        for i, f in enumerate(forms[:rng.randint(2, 4)]):
            if rng.random() < 0.3:
                items.append("pub enum %s: u8 { A = %d, B }" % (f, i))
            else:
                items.append("pub type %s { pub a: [u8; %d], pub p: *const %s }" % (f, 4 * (i + 1), forms[0]))
    rng.shuffle(items)
    files = {"twins.pyxis": "\n".join(items) + "\n"}
    if rng.random() < 0.5:
        files["other.pyxis"] = "use twins;\npub type User { pub x: %s, pub y: *mut %s }\n" % (stems[0], stems[0].upper())
    return files


def generated_vftable_refs(rng):
    """fields (never signatures: F7b) that name a GENERATED `<T>Vftable` type, in the owner's module and through
    `use a::<T>Vftable;` from another one: the name exists only once its owner has been attempted, and must then
    resolve -- whichever item is attempted first"""
    n = rng.randint(1, 3)
    a = []
    for i in range(n):
        fs = ";\n".join("        pub fn f%d_%d(&%sself%s)" % (i, k, "mut " if rng.random() < 0.5 else "", ", x: u32" if rng.random() < 0.5 else "")
                        for k in range(rng.randint(1, 3)))
        a.append("pub type Base%d {\n    vftable {\n%s;\n    },\n    pub id: u32,\n}" % (i, fs))
    if rng.random() < 0.5:
        a.append("pub type Local { pub vt: *const Base0Vftable, pub n: u32 }")
    rng.shuffle(a)
    uses = ["use a::Base%d;" % i for i in range(n)] + ["use a::Base%dVftable;" % i for i in range(n)]
    rng.shuffle(uses)
    fields = []
    for i in range(n):
        fields.append("    pub vt%d: *const Base%dVftable" % (i, i))
        if rng.random() < 0.5:
            fields.append("    pub first%d: *mut Base%d" % (i, i))
        if rng.random() < 0.3:
            fields.append("    pub tables%d: [*const Base%dVftable; 2]" % (i, i))
    rng.shuffle(fields)
    b = "\n".join(uses) + "\npub type Registry {\n" + ",\n".join(fields) + ",\n    pub count: u32,\n}\n"
    if rng.random() < 0.4:
        b += "pub type Holder { pub table: Base0Vftable, pub tail: u32 }\n"
    return {"a.pyxis": "\n".join(a) + "\n", "b.pyxis": b}


def retried_owner(rng):
    """a type with a vftable block that has to be attempted more than once (it embeds another polymorphic type by
    value), whose virtual functions name types that an earlier, failed attempt saw differently: the generated
    `<T>Vftable` of the embedded type (also hand-written in an imported module), which in the own module
    is generated only once that type has been attempted -- the result must be the one of the successful attempt,
    whatever was tried before"""
    inner, outer = rng.choice([("Node", "Graph"), ("Item", "Bag"), ("Part", "Whole")])
    nfn = rng.randint(1, 3)
    fns = ";\n".join("        pub fn f%d(&mut self%s)" % (k, ", x: u32" if rng.random() < 0.5 else "") for k in range(nfn))
    slots = ",\n".join("    pub s%d: *const void" % k for k in range(nfn + rng.randint(0, 2)))
    compat = "pub type %sVftable {\n%s,\n}\n" % (inner, slots)
    sig = rng.choice(["table: *const %sVftable" % inner, "a: u32, table: *mut %sVftable" % inner, "tables: *const *const %sVftable" % inner])
    ret = rng.choice(["", " -> *const %sVftable" % inner])
    items = [
        "pub type %s {\n    vftable {\n%s;\n    },\n    pub id: u32,\n}" % (inner, fns),
        "pub type %s {\n    vftable {\n        pub fn install(&mut self, %s)%s;\n    },\n    pub root: %s,\n}" % (outer, sig, ret, inner),
    ]
    if rng.random() < 0.5:
        items.append("pub type Extra { pub n: u32, pub first: *mut %s }" % outer)
    rng.shuffle(items)
    return {"compat.pyxis": compat, "scene.pyxis": "use compat;\n" + "\n".join(items) + "\n"}


def addressed_first_base(rng):
    """derived types with their own vftable block whose polymorphic first base carries an explicit address (0: the shared
    pointer), the base defined before or after them, chains of two or three levels: whether the base has been
    attempted when the derived type is tried first must not matter"""
    n = rng.randint(2, 3)
    items = []
    for i in range(n):
        fns = ["pub fn f%d(&self%s)" % (k, ", x: u32" if k % 2 else "") for k in range(i + 1)]
        body = "    vftable {\n%s;\n    },\n" % ";\n".join("        " + f for f in fns)
        if i > 0:
            attr = rng.choice(["#[address(0), base]", "#[base, address(0x0)]", "#[base]", "#[address(0)]\n    #[base]"])
            body += "    %s\n    pub base: L%d,\n" % (attr, i - 1)
        body += "    pub v%d: u32,\n" % i
        items.append("pub type L%d {\n%s}" % (i, body))
    if rng.random() < 0.5:
        items.append("pub type User { pub first: *mut L%d, pub inner: L0 }" % (n - 1))
    rng.shuffle(items)
    return {"chain.pyxis": "\n".join(items) + "\n"}


def runner(pid, prop, tier, seed, scratch, replay=None):
    rng = random.Random(seed)
    ninputs, budget, nfresh = (40, 24, 4) if tier == "quick" else (250, 100, 8)
    inputs = []
    if replay:
        doc = json.load(open(os.path.join(P.VERIF, replay) if not os.path.isabs(replay) else replay))
        inputs.append((doc["files"], doc.get("ptr", 4), None))
    else:
        base = props.load_corpus(["common", "C09"])
        for c in base:
            inputs.append((c["files"], c["ptr"], None))
        # inputs whose use lists make names ambiguous (the same short names in several modules, imported as
        # types and through modules): the binding must still be a function of the input, not of a hash seed
        import gen_special
        for j in range(6 if tier == "quick" else 60):
            files, exp = gen_special.gen_c11(seed * 7717 + j, 4 if j % 2 == 0 else 8)
            inputs.append((files, 4 if j % 2 == 0 else 8, exp))
        for j in range(8 if tier == "quick" else 60):
            inputs.append((ambiguous_imports(random.Random(seed * 9176 + j)), 4 if j % 2 == 0 else 8, None))
        for j in range(6 if tier == "quick" else 40):
            inputs.append((case_twins(random.Random(seed * 5519 + j)), 4 if j % 2 == 0 else 8, None))
        for j in range(6 if tier == "quick" else 40):
            inputs.append((generated_vftable_refs(random.Random(seed * 3571 + j)), 4 if j % 2 == 0 else 8, None))
        for j in range(4 if tier == "quick" else 30):
            inputs.append((addressed_first_base(random.Random(seed * 6121 + j)), 4 if j % 2 == 0 else 8, None))
        for j in range(4 if tier == "quick" else 30):
            inputs.append((retried_owner(random.Random(seed * 2741 + j)), 4 if j % 2 == 0 else 8, None))
        i = 0
        while len(inputs) < ninputs + len(base):
            files, exp = gen.generate(seed * 100003 + i, 4 if i % 2 == 0 else 8, PROFILE)
            i += 1
            if n_user_items(files) >= 2:
                inputs.append((files, 4 if (i - 1) % 2 == 0 else 8, exp))
    out = dict(evaluations=0, failures=[], breaks=[], samples=[], notes=[])
    dist = collections.Counter()
    nontrivial = 0
    # inputs are processed in batches so that memory stays bounded (a result holds the whole dump)
    BATCH = 20
    for b0 in range(0, len(inputs), BATCH):
        batch = list(range(b0, min(b0 + BATCH, len(inputs))))
        cases = []
        groups = []     # (input index, [case indices], kind)
        for ii in batch:
            files, ptr, exp = inputs[ii]
            n = n_user_items(files)
            idxs = []
            for sj, sch in enumerate(schedules_for(rng, min(n, 12), budget)):
                idxs.append(len(cases))
                cases.append(dict(id="i%d-s%d" % (ii, sj), ptr=ptr, schedule=sch, files=files))
            groups.append((ii, idxs, "schedules"))
            idxs = []
            for fj in range(nfresh):
                idxs.append(len(cases))
                cases.append(dict(id="i%d-h%d" % (ii, fj), ptr=ptr, schedule=None, files=files))
            groups.append((ii, idxs, "hash_seeds"))
        results = engine.run(cases, scratch)
        # module-addition orders through the API, from the ASTs of the first run of each input
        api_cases = []
        api_groups = []
        for ii, idxs, kind in groups:
            if kind != "schedules":
                continue
            r0 = results[idxs[0]]
            asts = sx.field(r0.h, "asts") or []
            if not asts or any(a[0] != "ast" for a in asts) or len(asts) < 2:
                continue
            mods = [(sx.show(a[2]), sx.show(a[3])) for a in asts]
            perms = list(itertools.permutations(mods))
            rng.shuffle(perms)
            gi = []
            for pj, perm in enumerate(perms[:6 if tier == "quick" else 24]):
                gi.append(len(api_cases))
                api_cases.append(dict(id="i%d-m%d" % (ii, pj), ptr=r0.case["ptr"], schedule=[0] * 16, modules=list(perm)))
            api_groups.append((ii, gi))
        api_results = engine.run(api_cases, scratch) if api_cases else []
        out["evaluations"] += len(cases) + len(api_cases)
        for ii, idxs, kind in groups:
            outs = collections.defaultdict(list)
            for ci in idxs:
                r = results[ci]
                outs[outcome(r)].append(r)
                if kind == "schedules" and r.mv is not None and r.hv[0] != r.mv[0]:
                    out["breaks"].append(dict(aspect="verdict", detail="schedule %s: impl %s vs model %s" % (r.case["schedule"], r.hv[0], r.mv[0]),
                                              case=props.summarise_case(r.case)))
                if r.hv[0] in ("hang", "crash", "panic"):
                    dist["impl_" + r.hv[0]] += 1
                if kind == "schedules" and r.m is not None and ci == idxs[0]:
                    dist[props.hyps_key(r.m)] += 1
            dist["%s:%d_outcomes" % (kind, len(outs))] += 1
            if len(outs) > 1:
                classes = sorted(outs, key=lambda o: -len(outs[o]))
                a, b = outs[classes[0]][0], outs[classes[1]][0]
                out["failures"].append(dict(
                    clause="C09." + kind, files=inputs[ii][0], ptr=inputs[ii][1],
                    detail="the same input set gave %d different results under different %s: %s (schedule %s) vs %s (schedule %s)" % (
                        len(outs), "resolution orders" if kind == "schedules" else "hash seeds / runs",
                        a.hv[0], a.case.get("schedule"), b.hv[0], b.case.get("schedule")),
                    case=dict(id=a.case["id"], ptr=inputs[ii][1], files=inputs[ii][0])))
            if kind == "schedules" and results[idxs[0]].hv[0] == "ok" and n_user_items(inputs[ii][0]) >= 2:
                nontrivial += 1
        for ii, gi in api_groups:
            outs = collections.defaultdict(list)
            for ci in gi:
                outs[outcome(api_results[ci])].append(api_results[ci])
            dist["module_orders:%d_outcomes" % len(outs)] += 1
            # the API path must also agree with the file path
            ref = outcome(results[[g for g in groups if g[0] == ii and g[2] == "schedules"][0][1][0]])
            if len(outs) > 1 or (outs and list(outs)[0][0] != ref[0]):
                out["failures"].append(dict(clause="C09.module_order", files=inputs[ii][0], ptr=inputs[ii][1],
                                            detail="module-addition order changes the result: %s" % [o[0] for o in outs],
                                            case=dict(id="i%d" % ii, ptr=inputs[ii][1], files=inputs[ii][0])))
        if replay:
            for r in results:
                print("replay:", r.case["id"], r.case.get("schedule"), r.hv[0])
        del results, api_results, cases, api_cases
    out["distinct_nontrivial"] = nontrivial
    out["distribution"] = dict(dist)
    out["samples"] = [dict(files=inputs[k][0], ptr=inputs[k][1], schedules_tried=budget, hash_seed_runs=nfresh) for k in range(min(2, len(inputs)))]
    return out


def f7b_known(scratch):
    """the listed order-dependent input (F7b): confirms that it still depends on the schedule"""
    files = props.witness_files(dict(witness="findings/F07b"))
    cases = [dict(id="f7b-%d" % k, ptr=4, schedule=[0, 0, k], files=files) for k in range(2)]
    res = engine.run(cases, scratch, want_model=False)
    return len(set(r.hv[0] for r in res)) > 1
