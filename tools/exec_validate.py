"""Validation of the execution oracle (tools/exec_oracle.py).

  python3 tools/exec_validate.py a [seeds]     (a) the unchanged pyxis: every property, quick tier, seeds 0..5 -- no FAIL expected
  python3 tools/exec_validate.py b [seed]      (b) the oracle notices wrong output: the EMITTED text is rewritten before
                                                   compiling (one mutation at a time); every mutation must produce failed groups

A mutation is a function (relative path, emitted text, exp) -> text; SITES counts how often it applied."""
import collections
import os
import re
import sys

sys.path.insert(0, os.path.dirname(os.path.abspath(__file__)))
import props  # noqa: F401,E402  (first: import order)
import exec_oracle as X  # noqa: E402
import pyxlib as P  # noqa: E402

SITES = collections.Counter()

ADDR_CALL = re.compile(r"(::std::mem::transmute\(\s*)(0x[0-9A-Fa-f]+)( as usize,?\s*\);\n\s+f\()([^()]*)(\))")
TAIL_CALL = re.compile(r"(\n\s+)(f\([^()]*\))(\n\s+\}\n)")
FWD_CALL = re.compile(r"(\n\s+self\.\w+\.\w+\()([^()]*)(\)\n\s+\}\n)")


def args_of(text):
    return [a.strip() for a in text.replace("\n", " ").split(",") if a.strip()]


def swapped(args):
    """the last two declared arguments exchanged (through usize, so that the call still type checks)"""
    own = [a for a in args if not a.startswith("self as ")]
    if len(own) < 2:
        return None
    head = args[:len(args) - 2]
    return head + ["%s as usize as _" % args[-1], "%s as usize as _" % args[-2]]


def count(name, n=1):
    SITES[name] += n


def m_swap_address_args(rel, text, exp):
    def f(m):
        new = swapped(args_of(m.group(4)))
        if new is None:
            return m.group(0)
        count("swap_address_args")
        return m.group(1) + m.group(2) + m.group(3) + ", ".join(new) + m.group(5)
    return ADDR_CALL.sub(f, text)


def m_address_literal(rel, text, exp):
    def f(m):
        count("address_literal")
        return m.group(1) + "%#x" % (int(m.group(2), 16) + X.POOL_STRIDE) + m.group(3) + m.group(4) + m.group(5)
    return ADDR_CALL.sub(f, text)


def m_next_slot(rel, text, exp):
    """the virtual wrapper reads the entry behind the one of its function"""
    new, n = re.subn(r"(std::ptr::addr_of!\(\(\*\s*self\.vftable\(\)\)\.\w+\))(\.read\(\))", r"\1.add(1)\2", text)
    count("next_slot", n)
    return new


def m_vftable_fields_swapped(rel, text, exp):
    """the first two entries of every vftable struct change places (size and alignment stay)"""
    def f(m):
        fields, cur = [], []
        for ln in m.group(2).split("\n")[:-1]:
            cur.append(ln)
            if ln.startswith("    ") and not ln.startswith("     ") and ln.rstrip().endswith(",") and not ln.strip().startswith("///"):
                fields.append("\n".join(cur) + "\n")
                cur = []
        if len(fields) < 2 or cur:
            return m.group(0)
        count("vftable_fields_swapped")
        return m.group(1) + fields[1] + fields[0] + "".join(fields[2:]) + m.group(3)
    return re.sub(r"(pub struct \w+Vftable \{\n)((?:    .*\n)+)(\}\n)", f, text)


def m_forward_other_base(rel, text, exp):
    """forward to the other base field of the same type"""
    for t in exp["types"].values():
        seen = {}
        for fname, bpath in t["base_fields"]:
            if bpath in seen:
                text, n = re.subn(r"\bself\.%s\." % seen[bpath], "self.%s." % fname, text)
                count("forward_other_base", n)
            else:
                seen[bpath] = fname
    return text


def m_forward_swap_args(rel, text, exp):
    def f(m):
        new = swapped(args_of(m.group(2)))
        if new is None:
            return m.group(0)
        count("forward_swap_args")
        return m.group(1) + ", ".join(new) + m.group(3)
    return FWD_CALL.sub(f, text)


def m_receiver_moved(rel, text, exp):
    new, n = re.subn(r"self as (\*const|\*mut) Self as _", r"(self as \1 Self).wrapping_byte_add(8) as _", text)
    count("receiver_moved", n)
    return new


def m_result_dropped(rel, text, exp):
    def f(m):
        count("result_dropped")
        return m.group(1) + "{ " + m.group(2) + "; ::std::mem::zeroed() }" + m.group(3)
    return TAIL_CALL.sub(f, text)


def m_called_twice(rel, text, exp):
    def f(m):
        count("called_twice")
        return m.group(1) + m.group(2) + ";" + m.group(1) + m.group(2) + m.group(3)
    return TAIL_CALL.sub(f, text)


def m_no_null_check(rel, text, exp):
    new, n = re.subn(r"\bptr\.as_mut\(\)", "Some(&mut *ptr)", text)
    count("no_null_check", n)
    return new


def m_singleton_address(rel, text, exp):
    def f(m):
        count("singleton_address")
        return "*(%dusize as *mut *mut Self)" % (int(m.group(1)) + X.POOL_STRIDE)
    return re.sub(r"\*\((\d+)usize as \*mut \*mut Self\)", f, text)


def m_enum_singleton_address(rel, text, exp):
    def f(m):
        count("enum_singleton_address")
        return "(%#x as *const Self).read()" % (int(m.group(1), 16) + 8)
    return re.sub(r"\((0x[0-9A-Fa-f]+) as \*const Self\)\s*\.read\(\)", f, text)


def m_extern_address(rel, text, exp):
    def f(m):
        count("extern_address")
        return "&mut *(%#x as *mut" % (int(m.group(1), 16) + X.POOL_STRIDE)
    return re.sub(r"&mut \*\((0x[0-9A-Fa-f]+) as \*mut", f, text)


def m_asref_moved(rel, text, exp):
    def f(m):
        count("asref_moved")
        return "%sunsafe { &*((&self.%s as *const %s).wrapping_byte_add(8)) }\n" % (m.group(1), m.group(3), m.group(2))
    return re.sub(r"(fn as_ref\(&self\) -> &(\S+) \{\n\s+)&self\.([\w.]+)\n", f, text)


def m_accessor_moved(rel, text, exp):
    """the accessor of a derived type returns something else than its base's table"""
    def f(m):
        count("accessor_moved")
        return "(self.%s.vftable() as *const u8).wrapping_add(8) as *const" % m.group(1)
    return re.sub(r"self\.(\w+)\.vftable\(\) as \*const", f, text)


MUTATIONS = [
    # name, function, the properties whose groups are expected to fail
    ("swap_address_args", m_swap_address_args, ["C05", "C07"]),
    ("address_literal", m_address_literal, ["C05", "C07"]),
    ("next_slot", m_next_slot, ["C04", "C07"]),
    ("vftable_fields_swapped", m_vftable_fields_swapped, ["C04", "C07"]),
    ("forward_other_base", m_forward_other_base, ["C07"]),
    ("forward_swap_args", m_forward_swap_args, ["C07"]),
    ("receiver_moved", m_receiver_moved, ["C04", "C05", "C07"]),
    ("result_dropped", m_result_dropped, ["C04", "C05", "C07"]),
    ("called_twice", m_called_twice, ["C04", "C05", "C07"]),
    ("no_null_check", m_no_null_check, ["C15"]),
    ("singleton_address", m_singleton_address, ["C15"]),
    ("enum_singleton_address", m_enum_singleton_address, ["C15"]),
    ("extern_address", m_extern_address, ["C15"]),
    ("asref_moved", m_asref_moved, ["C07"]),
    ("accessor_moved", m_accessor_moved, ["C06", "C04"]),
]


def show(counts, prefix):
    for k in sorted(counts):
        if k.startswith(prefix):
            print("      %6d  %s" % (counts[k], k))


def validate_a(seeds):
    total = collections.Counter()
    nfail = 0
    for seed in seeds:
        for pid in X.PROPS_SERVED:
            with P.Scratch() as scratch:
                fails, counts = X.exec_stage(pid, "quick", seed, scratch)
            nfail += len(fails)
            usable = counts.get("exec:all_ok", 0) + counts.get("exec:FAIL", 0) + counts.get("exec:fail_for_another_property", 0)
            unus = sum(v for k, v in counts.items() if k.startswith("exec:unusable"))
            print("seed %d %s: failures %d, usable %d, unusable %d, groups OK %d, groups not OK %d" % (
                seed, pid, len(fails), usable, unus, counts.get("exec:assertions", 0),
                sum(v for k, v in counts.items() if k.startswith("exec:failed_groups"))))
            for f in fails:
                print("   FAILURE %s gseed %s: %s" % (f["clause"], f["case"]["gseed"], f["detail"][:2000]))
            for k, v in counts.items():
                total["%s | %s" % (pid, k)] += v
    print("---- totals over seeds %s" % list(seeds))
    for k in sorted(total):
        print("%8d  %s" % (total[k], k))
    print("FAILURES: %d" % nfail)


def validate_b(seed):
    for name, fn, expected in MUTATIONS:
        SITES.clear()
        print("== mutation %s (expected to be caught by %s)" % (name, ", ".join(expected)))
        caught = collections.Counter()
        for pid in expected:
            with P.Scratch() as scratch:
                fails, counts = X.exec_stage(pid, "quick", seed, scratch, mutate=fn)
            caught[pid] = len(fails)
            print("   stage %s: %d failures reported; cases all_ok %d, unusable %d" % (
                pid, len(fails), counts.get("exec:all_ok", 0), sum(v for k, v in counts.items() if k.startswith("exec:unusable"))))
            show(counts, "exec:failed_groups")
            if fails:
                print("      e.g. %s" % fails[0]["detail"][:400])
        print("   sites rewritten: %d; verdict: %s" % (SITES[name], "DETECTED" if all(caught[p_] for p_ in expected) else "NOT DETECTED by %s" % [p_ for p_ in expected if not caught[p_]]))


if __name__ == "__main__":
    what = sys.argv[1] if len(sys.argv) > 1 else "a"
    if what == "a":
        validate_a(range(int(sys.argv[2])) if len(sys.argv) > 2 else range(6))
    else:
        if len(sys.argv) > 3:
            MUTATIONS[:] = [m for m in MUTATIONS if m[0] in sys.argv[3:]]
        validate_b(int(sys.argv[2]) if len(sys.argv) > 2 else 0)
