import sys, collections
import gen, engine, pyxlib as P, sx
n=int(sys.argv[1]); seed0=int(sys.argv[2]) if len(sys.argv)>2 else 0
cases=[]
for i in range(n):
    ptr=4 if i%2==0 else 8
    files,exp=gen.generate(seed0*100000+i,ptr)
    cases.append({'id':'g%d'%i,'ptr':ptr,'schedule':[],'files':files,'exp':exp})
with P.Scratch() as d:
    res=engine.run(cases,d)
vc=collections.Counter(); dc=collections.Counter(); shown=0
for r in res:
    vc[(r.hv[0], r.mv[0] if r.mv else None, bool(r.case['exp']['miss']))]+=1
    for a,det in r.diffs:
        dc[a]+=1
    if r.diffs and shown<(int(sys.argv[3]) if len(sys.argv)>3 else 6):
        shown+=1
        print('----',r.case['id'],r.case['exp']['miss'])
        for a,det in r.diffs[:4]: print('  ',a,det[:600])
    if r.hv[0] in('err',) and not r.case['exp']['miss'] and shown<12:
        shown+=1; print('UNEXPECTED ERR',r.case['id'],r.hv[1][:300])
print(vc); print(dc)
