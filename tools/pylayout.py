"""Layout of the emitted Rust items, computed from the implementation's own output files by the Rust
Reference's rules (repr(C), packed, align(N), repr(int) enums, arrays, pointers).  Used by the
monitors: it never looks at pyxis's regions or at the Coq model."""

PRIMS = {
    "bool": (1, 1), "u8": (1, 1), "u16": (2, 2), "u32": (4, 4), "u64": (8, 8), "u128": (16, 16),
    "i8": (1, 1), "i16": (2, 2), "i32": (4, 4), "i64": (8, 8), "i128": (16, 16),
    "f32": (4, 4), "f64": (8, 8), "usize": None, "isize": None,
}


class LayoutError(Exception):
    pass


def parse_type(toks):
    """token list (as dumped) -> tree"""
    t, rest = _ptype(list(toks))
    if rest:
        raise LayoutError("trailing tokens in type: %r" % (rest,))
    return t


def _ptype(ts):
    if not ts:
        raise LayoutError("empty type")
    h = ts[0]
    if h == "*":
        inner, rest = _ptype(ts[2:])
        return ("ptr", ts[1], inner), rest
    if h == "&":
        i = 1
        if i < len(ts) and ts[i] == "'":
            i += 2
        if i < len(ts) and ts[i] == "mut":
            i += 1
        inner, rest = _ptype(ts[i:])
        return ("ptr", "ref", inner), rest
    if isinstance(h, list) and h and h[0] == "bracket":
        body = h[1:]
        # T ; n
        semi = len(body) - 2
        if semi < 1 or body[semi] != ";":
            raise LayoutError("bad array type")
        elem = parse_type(body[:semi])
        n = body[semi + 1]
        if not (isinstance(n, list) and n[0] == "i"):
            raise LayoutError("bad array length")
        return ("array", elem, int(n[1])), ts[1:]
    if h in ("unsafe", "extern", "fn"):
        # unsafe extern "abi" fn (args) [-> T]
        i = 0
        abi = None
        while i < len(ts) and ts[i] != "fn":
            if isinstance(ts[i], list) and ts[i][0] == "s":
                abi = ts[i][1]
            i += 1
        args = ts[i + 1]
        rest = ts[i + 2:]
        ret = None
        if len(rest) >= 2 and rest[0] == "-" and rest[1] == ">":
            ret, rest = _ptype(rest[2:])
        return ("fn", abi, args, ret), rest
    # path
    segs = []
    absolute = False
    i = 0
    if ts[0] == ":" and len(ts) > 1 and ts[1] == ":":
        absolute = True
        i = 2
    while i < len(ts):
        if isinstance(ts[i], str) and ts[i] not in (":", ",", ">", "<", ";", "-", "="):
            seg = ts[i]
            i += 1
            # generics hack: Name < ... >
            if i < len(ts) and ts[i] == "<":
                depth = 0
                while i < len(ts):
                    if ts[i] == "<":
                        depth += 1
                    elif ts[i] == ">":
                        depth -= 1
                    seg += str(ts[i])
                    i += 1
                    if depth == 0:
                        break
            segs.append(seg)
            if i + 1 < len(ts) and ts[i] == ":" and ts[i + 1] == ":":
                i += 2
                continue
            break
        else:
            break
    if not segs:
        raise LayoutError("bad type tokens %r" % (ts,))
    return ("path", absolute, tuple(segs)), ts[i:]


class Crate:
    def __init__(self, files, ptr, externs=None):
        """files: {relpath.rs: file sexp}; externs: {tuple(path): (size, align)}"""
        self.ptr = ptr
        self.externs = externs or {}
        self.items = {}      # tuple(path) -> item sexp
        for rel, f in files.items():
            if f is None or f[0] != "file":
                continue
            mod = tuple(rel[:-3].split("/"))
            for it in f[2:]:
                if isinstance(it, list) and it and it[0] in ("struct", "enum"):
                    self.items[mod + (it[3],)] = it
        self.cache = {}

    def type_layout(self, t, mod):
        k = t[0]
        if k == "ptr" or k == "fn":
            return (self.ptr, self.ptr)
        if k == "array":
            s, a = self.type_layout(t[1], mod)
            return (s * t[2], a)
        _, absolute, segs = t
        if absolute:
            if segs == ("std", "ffi", "c_void"):
                return (1, 1)
            raise LayoutError("unknown absolute path %r" % (segs,))
        if segs[0] == "crate":
            return self.item_layout(tuple(segs[1:]))[:2]
        if len(segs) == 1:
            if segs[0] in PRIMS and PRIMS[segs[0]]:
                return PRIMS[segs[0]]
            if segs[0] in ("usize", "isize"):
                return (self.ptr, self.ptr)
            # a bare name is an item of the same module (or the self type)
            return self.item_layout(mod + (segs[0],))[:2]
        raise LayoutError("cannot resolve path %r" % (segs,))

    def item_layout(self, path):
        """(size, align, [(field, offset, size)])"""
        if path in self.cache:
            r = self.cache[path]
            if r is None:
                raise LayoutError("recursive type %r" % (path,))
            return r
        if path in self.externs:
            s, a = self.externs[path]
            return (s, a, [])
        it = self.items.get(path)
        if it is None:
            raise LayoutError("no item %r" % (path,))
        self.cache[path] = None
        mod = path[:-1]
        packed = False
        align_attr = 1
        repr_int = None
        for a in it[1][1:]:
            body = a[2:]
            if body and body[0] == "repr" and len(body) > 1:
                args = body[1][1:]
                i = 0
                while i < len(args):
                    x = args[i]
                    if x == "packed":
                        packed = True
                    elif x == "align":
                        align_attr = int(args[i + 1][1][1])
                        i += 1
                    elif x in PRIMS and x != "C":
                        repr_int = x
                    i += 1
        if it[0] == "enum":
            if repr_int is None:
                raise LayoutError("enum without integer repr")
            s, a = PRIMS[repr_int] if PRIMS[repr_int] else (self.ptr, self.ptr)
            r = (s, a, [])
        else:
            off = 0
            maxal = align_attr
            fields = []
            for f in it[4:]:
                if not (isinstance(f, list) and f[0] == "field"):
                    continue
                s, a = self.type_layout(parse_type(f[4][1:]), mod)
                if packed:
                    a = 1
                if a == 0:
                    raise LayoutError("zero alignment")
                off = (off + a - 1) // a * a
                fields.append((f[3], off, s))
                off += s
                maxal = max(maxal, a)
            size = (off + maxal - 1) // maxal * maxal
            r = (size, maxal, fields)
        self.cache[path] = r
        return r
