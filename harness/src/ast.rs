//! grammar::Module <-> S-expression (the input format of the Coq model).
use crate::sexp::{quote, Sexp};
use pyxis::grammar::*;

fn name(i: &Ident) -> String {
    quote(i.as_str())
}

fn vis(v: &Visibility) -> &'static str {
    match v {
        Visibility::Public => "pub",
        Visibility::Private => "priv",
    }
}

pub fn ty(t: &Type) -> String {
    match t {
        Type::ConstPointer(t) => format!("(cptr {})", ty(t)),
        Type::MutPointer(t) => format!("(mptr {})", ty(t)),
        Type::Array(t, n) => format!("(array {} {})", ty(t), n),
        Type::Ident(i) => format!("(tid {})", name(i)),
        Type::Unknown(n) => format!("(unknown {})", n),
    }
}

fn expr(e: &Expr) -> String {
    match e {
        Expr::IntLiteral(v) => format!("(int {})", v),
        Expr::StringLiteral(s) => format!("(str {})", quote(s)),
        Expr::Ident(i) => format!("(id {})", name(i)),
    }
}

fn attr(a: &Attribute) -> String {
    match a {
        Attribute::Ident(i) => format!("(ident {})", name(i)),
        Attribute::Function(i, es) => format!(
            "(fn {}{})",
            name(i),
            es.iter().map(|e| format!(" {}", expr(e))).collect::<String>()
        ),
        Attribute::Assign(i, e) => format!("(assign {} {})", name(i), expr(e)),
    }
}

pub fn attrs_sexp(a: &Attributes) -> String {
    attrs(a)
}

fn attrs(a: &Attributes) -> String {
    format!(
        "(attrs{})",
        a.0.iter().map(|a| format!(" {}", attr(a))).collect::<String>()
    )
}

fn arg(a: &Argument) -> String {
    match a {
        Argument::ConstSelf => "cself".into(),
        Argument::MutSelf => "mself".into(),
        Argument::Named(n, t) => format!("(named {} {})", name(n), ty(t)),
    }
}

fn func(f: &Function) -> String {
    format!(
        "(func {} {} {} (args{}) {})",
        attrs(&f.attributes),
        vis(&f.visibility),
        name(&f.name),
        f.arguments.iter().map(|a| format!(" {}", arg(a))).collect::<String>(),
        match &f.return_type {
            None => "none".to_string(),
            Some(t) => format!("(some {})", ty(t)),
        }
    )
}

fn path(p: &ItemPath) -> String {
    format!(
        "(path{})",
        p.iter().map(|s| format!(" {}", quote(s.as_str()))).collect::<String>()
    )
}

pub fn item_path(p: &ItemPath) -> String {
    path(p)
}

fn optstr(s: &Option<String>) -> String {
    match s {
        None => "none".into(),
        Some(s) => format!("(some {})", quote(s)),
    }
}

pub fn module(m: &Module) -> String {
    let mut out = String::from("(module ");
    out += &attrs(&m.attributes);
    out += " (uses";
    for u in &m.uses {
        out += " ";
        out += &path(u);
    }
    out += ") (extern_types";
    for (n, a) in &m.extern_types {
        out += &format!(" (etype {} {})", name(n), attrs(a));
    }
    out += ") (extern_values";
    for ev in &m.extern_values {
        out += &format!(
            " (evalue {} {} {} {})",
            attrs(&ev.attributes),
            vis(&ev.visibility),
            name(&ev.name),
            ty(&ev.type_)
        );
    }
    out += ") (defs";
    for d in &m.definitions {
        out += &format!(" (def {} {} ", vis(&d.visibility), name(&d.name));
        match &d.inner {
            ItemDefinitionInner::Type(td) => {
                out += &format!("(type {}", attrs(&td.attributes));
                for st in &td.statements {
                    match &st.field {
                        TypeField::Field(v, n, t) => {
                            out += &format!(
                                " (field {} {} {} {})",
                                attrs(&st.attributes),
                                vis(v),
                                name(n),
                                ty(t)
                            )
                        }
                        TypeField::Vftable(fs) => {
                            out += &format!(" (vftable {}", attrs(&st.attributes));
                            for f in fs {
                                out += " ";
                                out += &func(f);
                            }
                            out += ")";
                        }
                    }
                }
                out += ")";
            }
            ItemDefinitionInner::Enum(ed) => {
                out += &format!("(enum {} {}", ty(&ed.type_), attrs(&ed.attributes));
                for st in &ed.statements {
                    out += &format!(
                        " (case {} {} {})",
                        attrs(&st.attributes),
                        name(&st.name),
                        match &st.expr {
                            None => "none".to_string(),
                            Some(e) => format!("(some {})", expr(e)),
                        }
                    );
                }
                out += ")";
            }
        }
        out += ")";
    }
    out += ") (impls";
    for i in &m.impls {
        out += &format!(" (impl {} {}", name(&i.name), attrs(&i.attributes));
        for f in &i.functions {
            out += " ";
            out += &func(f);
        }
        out += ")";
    }
    out += ") (backends";
    for b in &m.backends {
        out += &format!(
            " (backend {} {} {})",
            name(&b.name),
            optstr(&b.prologue),
            optstr(&b.epilogue)
        );
    }
    out += "))";
    out
}

// ---------------------------------------------------------------------------------------------
// S-expression -> grammar (for the `api` sub-command: modules that concrete syntax cannot express)

type R<T> = Result<T, String>;

fn s_name(s: &Sexp) -> R<Ident> {
    Ok(Ident(
        String::from_utf8_lossy(s.string().ok_or("expected string")?).into_owned(),
    ))
}
fn s_vis(s: &Sexp) -> R<Visibility> {
    match s.atom() {
        Some("pub") => Ok(Visibility::Public),
        Some("priv") => Ok(Visibility::Private),
        _ => Err("bad visibility".into()),
    }
}
fn s_usize(s: &Sexp) -> R<usize> {
    s.atom().ok_or("expected number")?.parse().map_err(|_| "bad usize".to_string())
}
fn s_ty(s: &Sexp) -> R<Type> {
    let l = s.list().ok_or("expected type")?;
    match l[0].atom() {
        Some("cptr") => Ok(Type::ConstPointer(Box::new(s_ty(&l[1])?))),
        Some("mptr") => Ok(Type::MutPointer(Box::new(s_ty(&l[1])?))),
        Some("array") => Ok(Type::Array(Box::new(s_ty(&l[1])?), s_usize(&l[2])?)),
        Some("tid") => Ok(Type::Ident(s_name(&l[1])?)),
        Some("unknown") => Ok(Type::Unknown(s_usize(&l[1])?)),
        _ => Err("bad type".into()),
    }
}
fn s_expr(s: &Sexp) -> R<Expr> {
    let l = s.list().ok_or("expected expr")?;
    match l[0].atom() {
        Some("int") => Ok(Expr::IntLiteral(
            l[1].atom().ok_or("int")?.parse().map_err(|_| "bad isize".to_string())?,
        )),
        Some("str") => Ok(Expr::StringLiteral(
            String::from_utf8_lossy(l[1].string().ok_or("str")?).into_owned(),
        )),
        Some("id") => Ok(Expr::Ident(s_name(&l[1])?)),
        _ => Err("bad expr".into()),
    }
}
fn s_attrs(s: &Sexp) -> R<Attributes> {
    let l = s.tagged("attrs").ok_or("expected attrs")?;
    let mut out = vec![];
    for a in l {
        let al = a.list().ok_or("attr")?;
        out.push(match al[0].atom() {
            Some("ident") => Attribute::Ident(s_name(&al[1])?),
            Some("fn") => Attribute::Function(
                s_name(&al[1])?,
                al[2..].iter().map(s_expr).collect::<R<Vec<_>>>()?,
            ),
            Some("assign") => Attribute::Assign(s_name(&al[1])?, s_expr(&al[2])?),
            _ => return Err("bad attr".into()),
        });
    }
    Ok(Attributes(out))
}
fn s_opt<T>(s: &Sexp, f: impl Fn(&Sexp) -> R<T>) -> R<Option<T>> {
    if s.atom() == Some("none") {
        return Ok(None);
    }
    let l = s.tagged("some").ok_or("expected option")?;
    Ok(Some(f(&l[0])?))
}
fn s_func(s: &Sexp) -> R<Function> {
    let l = s.tagged("func").ok_or("expected func")?;
    let args = l[3].tagged("args").ok_or("args")?;
    Ok(Function {
        attributes: s_attrs(&l[0])?,
        visibility: s_vis(&l[1])?,
        name: s_name(&l[2])?,
        arguments: args
            .iter()
            .map(|a| match a {
                Sexp::Atom(a) if a == "cself" => Ok(Argument::ConstSelf),
                Sexp::Atom(a) if a == "mself" => Ok(Argument::MutSelf),
                other => {
                    let n = other.tagged("named").ok_or("arg")?;
                    Ok(Argument::Named(s_name(&n[0])?, s_ty(&n[1])?))
                }
            })
            .collect::<R<Vec<_>>>()?,
        return_type: s_opt(&l[4], s_ty)?,
    })
}
pub fn s_path(s: &Sexp) -> R<ItemPath> {
    let l = s.tagged("path").ok_or("expected path")?;
    Ok(l
        .iter()
        .map(|x| Ok(ItemPathSegment::from(String::from_utf8_lossy(x.string().ok_or("seg")?).into_owned())))
        .collect::<R<Vec<_>>>()?
        .into_iter()
        .collect())
}
fn s_string(s: &Sexp) -> R<String> {
    Ok(String::from_utf8_lossy(s.string().ok_or("expected string")?).into_owned())
}

pub fn s_module(s: &Sexp) -> R<Module> {
    let l = s.tagged("module").ok_or("expected module")?;
    let mut m = Module::new();
    m.attributes = s_attrs(&l[0])?;
    for u in l[1].tagged("uses").ok_or("uses")? {
        m.uses.push(s_path(u)?);
    }
    for e in l[2].tagged("extern_types").ok_or("extern_types")? {
        let e = e.tagged("etype").ok_or("etype")?;
        m.extern_types.push((s_name(&e[0])?, s_attrs(&e[1])?));
    }
    for e in l[3].tagged("extern_values").ok_or("extern_values")? {
        let e = e.tagged("evalue").ok_or("evalue")?;
        m.extern_values.push(ExternValue {
            attributes: s_attrs(&e[0])?,
            visibility: s_vis(&e[1])?,
            name: s_name(&e[2])?,
            type_: s_ty(&e[3])?,
        });
    }
    for d in l[4].tagged("defs").ok_or("defs")? {
        let d = d.tagged("def").ok_or("def")?;
        let visibility = s_vis(&d[0])?;
        let name = s_name(&d[1])?;
        let inner = if let Some(t) = d[2].tagged("type") {
            let mut statements = vec![];
            for st in &t[1..] {
                if let Some(f) = st.tagged("field") {
                    statements.push(TypeStatement {
                        attributes: s_attrs(&f[0])?,
                        field: TypeField::Field(s_vis(&f[1])?, s_name(&f[2])?, s_ty(&f[3])?),
                    });
                } else if let Some(v) = st.tagged("vftable") {
                    statements.push(TypeStatement {
                        attributes: s_attrs(&v[0])?,
                        field: TypeField::Vftable(v[1..].iter().map(s_func).collect::<R<Vec<_>>>()?),
                    });
                } else {
                    return Err("bad statement".into());
                }
            }
            ItemDefinitionInner::Type(TypeDefinition {
                statements,
                attributes: s_attrs(&t[0])?,
            })
        } else if let Some(e) = d[2].tagged("enum") {
            let mut statements = vec![];
            for st in &e[2..] {
                let c = st.tagged("case").ok_or("case")?;
                statements.push(EnumStatement {
                    attributes: s_attrs(&c[0])?,
                    name: s_name(&c[1])?,
                    expr: s_opt(&c[2], s_expr)?,
                });
            }
            ItemDefinitionInner::Enum(EnumDefinition {
                type_: s_ty(&e[0])?,
                attributes: s_attrs(&e[1])?,
                statements,
            })
        } else {
            return Err("bad def".into());
        };
        m.definitions.push(ItemDefinition {
            visibility,
            name,
            inner,
        });
    }
    for i in l[5].tagged("impls").ok_or("impls")? {
        let i = i.tagged("impl").ok_or("impl")?;
        m.impls.push(FunctionBlock {
            name: s_name(&i[0])?,
            attributes: s_attrs(&i[1])?,
            functions: i[2..].iter().map(s_func).collect::<R<Vec<_>>>()?,
        });
    }
    for b in l[6].tagged("backends").ok_or("backends")? {
        let b = b.tagged("backend").ok_or("backend")?;
        m.backends.push(Backend {
            name: s_name(&b[0])?,
            prologue: s_opt(&b[1], s_string)?,
            epilogue: s_opt(&b[2], s_string)?,
        });
    }
    Ok(m)
}
