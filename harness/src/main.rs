//! Harness around the real pyxis (built from /repo's working tree with --cfg pyxis_verif).
//!
//!   harness batch <cases.sexp> <results.sexp>
//!
//! Every case is one S-expression; every result is one line.  See /verif/DESIGN.md appendix C.
mod ast;
mod rsdump;
mod sexp;

use sexp::{quote, Sexp};
use std::{
    collections::hash_map::DefaultHasher,
    hash::Hasher,
    io::Write,
    panic::{catch_unwind, AssertUnwindSafe},
    path::{Path, PathBuf},
    sync::Mutex,
};

static LAST_PANIC: Mutex<String> = Mutex::new(String::new());

fn verdict_of(r: std::thread::Result<anyhow::Result<()>>) -> String {
    match r {
        Ok(Ok(())) => "ok".to_string(),
        Ok(Err(e)) => format!("(err {})", quote(&format!("{:#}", e))),
        Err(_) => format!("(panic {})", quote(&LAST_PANIC.lock().unwrap())),
    }
}

fn list_files(dir: &Path, base: &Path, out: &mut Vec<PathBuf>) {
    let Ok(rd) = std::fs::read_dir(dir) else { return };
    let mut entries: Vec<_> = rd.filter_map(Result::ok).map(|e| e.path()).collect();
    entries.sort();
    for p in entries {
        if p.is_dir() {
            list_files(&p, base, out);
        } else {
            out.push(p.strip_prefix(base).unwrap().to_path_buf());
        }
    }
}

fn registry_dump(state: &pyxis::semantic::ResolvedSemanticState) -> String {
    use pyxis::semantic::types::{ItemCategory, ItemDefinitionInner};
    let mut items = vec![];
    for module in state.modules().values() {
        for p in module.definition_paths() {
            let Some(item) = state.type_registry().get(p) else { continue };
            let cat = match item.category {
                ItemCategory::Defined => "defined",
                ItemCategory::Extern => "extern",
                ItemCategory::Predefined => continue,
            };
            let (kind, size, align) = match item.resolved() {
                None => ("unresolved", 0, 0),
                Some(r) => (
                    match r.inner {
                        ItemDefinitionInner::Type(_) => "type",
                        ItemDefinitionInner::Enum(_) => "enum",
                    },
                    r.size,
                    r.alignment,
                ),
            };
            items.push((
                p.clone(),
                format!("(item {} {} {} {} {})", ast::item_path(p), cat, kind, size, align),
            ));
        }
    }
    items.sort();
    items.dedup();
    items.into_iter().map(|(_, s)| format!(" {}", s)).collect()
}

fn file_hash(bytes: &[u8]) -> u64 {
    let mut h = DefaultHasher::new();
    h.write(bytes);
    h.finish()
}

fn run_case(case: &Sexp, scratch: &Path) -> String {
    let id = case
        .field("id")
        .and_then(|l| l.first())
        .and_then(|s| s.string())
        .map(|b| String::from_utf8_lossy(b).into_owned())
        .unwrap_or_default();
    let ptr: usize = case
        .field("ptr")
        .and_then(|l| l.first())
        .and_then(|s| s.atom())
        .and_then(|a| a.parse().ok())
        .unwrap_or(4);
    let schedule: Option<Vec<u64>> = case
        .field("schedule")
        .map(|l| l.iter().filter_map(|s| s.atom()?.parse().ok()).collect());
    let want_text = case.field("text").is_some();
    // (parse_only): the case is about the parser alone (C18) -- the build is not run, so that an attribute the
    // semantic pass would act on (a vftable index of 2^63 - 1 ...) costs nothing
    let parse_only = case.field("parse_only").is_some();

    let _ = std::fs::remove_dir_all(scratch);
    let in_dir = scratch.join("in");
    let out_dir = scratch.join("out");
    std::fs::create_dir_all(&in_dir).unwrap();
    std::fs::create_dir_all(&out_dir).unwrap();

    let mut out = format!("(result (id {})", quote(&id));

    pyxis::semantic::verif_hook::set_schedule(schedule.clone());

    if let Some(mods) = case.field("modules") {
        // API mode: modules given as ASTs, added in the given order.
        let mut parsed = vec![];
        for m in mods {
            let l = m.list().unwrap();
            match (ast::s_path(&l[0]), ast::s_module(&l[1])) {
                (Ok(p), Ok(m)) => parsed.push((p, m)),
                (a, b) => {
                    return format!(
                        "(result (id {}) (harness_error {}))",
                        quote(&id),
                        quote(&format!("{:?} {:?}", a.err(), b.err()))
                    )
                }
            }
        }
        let mut registry = String::new();
        let r = catch_unwind(AssertUnwindSafe(|| -> anyhow::Result<()> {
            let mut st = pyxis::semantic::SemanticState::new(ptr);
            for (p, m) in &parsed {
                st.add_module(m, p)?;
            }
            let resolved = st.build()?;
            registry = registry_dump(&resolved);
            for (key, module) in resolved.modules() {
                pyxis::backends::rust::write_module(&out_dir, key, &resolved, module)?;
            }
            Ok(())
        }));
        let v = verdict_of(r);
        out += &format!(" (verdict {}) (api_verdict {}) (asts", v, v);
        for (p, m) in &parsed {
            out += &format!(" (ast \"\" {} {})", ast::item_path(p), ast::module(m));
        }
        out += ")";
        out += &files_dump(&out_dir, want_text);
        out += &format!(" (registry{}))", registry);
        pyxis::semantic::verif_hook::set_schedule(None);
        let _ = std::fs::remove_dir_all(scratch);
        return out;
    }

    // File mode.
    for f in case.field("files").unwrap_or(&[]) {
        let l = f.list().unwrap();
        let rel = String::from_utf8_lossy(l[0].string().unwrap()).into_owned();
        let p = in_dir.join(&rel);
        if let Some(parent) = p.parent() {
            std::fs::create_dir_all(parent).unwrap();
        }
        std::fs::write(&p, l[1].string().unwrap()).unwrap();
    }

    // Run A: the real top-level entry point.
    if parse_only {
        out += " (verdict skipped)";
    } else {
        let r = catch_unwind(AssertUnwindSafe(|| pyxis::build(&in_dir, &out_dir, ptr)));
        out += &format!(" (verdict {})", verdict_of(r));
    }

    // Run B: the same pipeline through the public API, to read the registry.
    let paths: Vec<PathBuf> = match glob::glob(&format!("{}/**/*.pyxis", in_dir.display())) {
        Ok(g) => g.filter_map(Result::ok).collect(),
        Err(_) => vec![],
    };
    let mut registry = String::new();
    if parse_only {
        out += " (api_verdict skipped)";
    } else {
        let r = catch_unwind(AssertUnwindSafe(|| -> anyhow::Result<()> {
            let mut st = pyxis::semantic::SemanticState::new(ptr);
            for p in &paths {
                st.add_file(&in_dir, p)?;
            }
            let resolved = st.build()?;
            registry = registry_dump(&resolved);
            Ok(())
        }));
        out += &format!(" (api_verdict {})", verdict_of(r));
    }

    out += " (asts";
    for p in &paths {
        let rel = p.strip_prefix(&in_dir).unwrap_or(p);
        let text = std::fs::read(p).unwrap_or_default();
        let text = String::from_utf8_lossy(&text).into_owned();
        let parsed = catch_unwind(AssertUnwindSafe(|| pyxis::parser::parse_str(&text)));
        match parsed {
            Ok(Ok(m)) => {
                out += &format!(
                    " (ast {} {} {})",
                    quote(&rel.to_string_lossy()),
                    ast::item_path(&pyxis::grammar::ItemPath::from_path(rel)),
                    ast::module(&m)
                )
            }
            Ok(Err(e)) => {
                let lc = e.span().start();
                out += &format!(
                    " (parse_error {} {} {} {})",
                    quote(&rel.to_string_lossy()),
                    quote(&e.to_string()),
                    lc.line,
                    lc.column
                )
            }
            Err(_) => {
                out += &format!(
                    " (parse_panic {} {})",
                    quote(&rel.to_string_lossy()),
                    quote(&LAST_PANIC.lock().unwrap())
                )
            }
        }
    }
    out += ")";
    out += &files_dump(&out_dir, want_text);
    out += &format!(" (registry{}))", registry);
    pyxis::semantic::verif_hook::set_schedule(None);
    let _ = std::fs::remove_dir_all(scratch);
    out
}

fn files_dump(out_dir: &Path, want_text: bool) -> String {
    let mut files = vec![];
    list_files(out_dir, out_dir, &mut files);
    let mut out = String::from(" (files");
    for f in files {
        let bytes = std::fs::read(out_dir.join(&f)).unwrap_or_default();
        let text = String::from_utf8_lossy(&bytes).into_owned();
        out += &format!(
            " (f {} (hash {} {}) {}{})",
            quote(&f.to_string_lossy()),
            file_hash(&bytes),
            bytes.len(),
            rsdump::file(&text),
            if want_text { format!(" (text {})", quote(&text)) } else { String::new() }
        );
    }
    out += ")";
    out
}

/// tokens as the Coq parser model sees them: (id "s") (int Z) (str "s") (p "c") (g delim ...)
fn syntax_tokens(ts: proc_macro2::TokenStream) -> String {
    use proc_macro2::{Delimiter, TokenTree};
    let tts: Vec<TokenTree> = ts.into_iter().collect();
    let mut out = String::new();
    let mut i = 0;
    while i < tts.len() {
        out.push(' ');
        match &tts[i] {
            TokenTree::Ident(id) => out += &format!("(id {})", quote(&id.to_string())),
            TokenTree::Punct(p) => {
                // syn reads `-` followed by an integer literal as one (negative) LitInt
                if p.as_char() == '-' {
                    if let Some(TokenTree::Literal(l)) = tts.get(i + 1) {
                        if let Ok(syn::Lit::Int(li)) = syn::parse_str::<syn::Lit>(&l.to_string()) {
                            out += &format!("(int -{})", li.base10_digits());
                            i += 2;
                            continue;
                        }
                    }
                }
                // `::` and `->` are single tokens for syn only when the two characters are joint
                if p.spacing() == proc_macro2::Spacing::Joint {
                    if let Some(TokenTree::Punct(q)) = tts.get(i + 1) {
                        let pair = (p.as_char(), q.as_char());
                        if pair == (':', ':') || pair == ('-', '>') {
                            out += &format!("(p {})", quote(&format!("{}{}", pair.0, pair.1)));
                            i += 2;
                            continue;
                        }
                    }
                }
                out += &format!("(p {})", quote(&p.as_char().to_string()));
            }
            TokenTree::Literal(l) => match syn::parse_str::<syn::Lit>(&l.to_string()) {
                Ok(syn::Lit::Int(li)) => out += &format!("(int {})", li.base10_digits()),
                Ok(syn::Lit::Str(s)) => out += &format!("(str {})", quote(&s.value())),
                _ => out += &format!("(other {})", quote(&l.to_string())),
            },
            TokenTree::Group(g) => {
                let d = match g.delimiter() {
                    Delimiter::Parenthesis => "paren",
                    Delimiter::Brace => "brace",
                    Delimiter::Bracket => "bracket",
                    Delimiter::None => "none",
                };
                out += &format!("(g {}{})", d, syntax_tokens(g.stream()));
            }
        }
        i += 1;
    }
    out
}

fn main() {
    std::panic::set_hook(Box::new(|info| {
        let loc = info
            .location()
            .map(|l| format!("{}:{}", l.file(), l.line()))
            .unwrap_or_default();
        let msg = if let Some(s) = info.payload().downcast_ref::<&str>() {
            s.to_string()
        } else if let Some(s) = info.payload().downcast_ref::<String>() {
            s.clone()
        } else {
            "panic".to_string()
        };
        *LAST_PANIC.lock().unwrap() = format!("{} at {}", msg, loc);
    }));
    let args: Vec<String> = std::env::args().collect();
    match args.get(1).map(|s| s.as_str()) {
        Some("batch") => {
            let input = std::fs::read_to_string(&args[2]).expect("read cases");
            let cases = sexp::parse(&input).expect("parse cases");
            let scratch = std::env::temp_dir().join(format!("pyxis-harness-{}", std::process::id()));
            let mut out = std::io::BufWriter::new(std::fs::File::create(&args[3]).expect("create output"));
            for c in &cases {
                let r = run_case(c, &scratch);
                writeln!(out, "{}", r).unwrap();
                out.flush().unwrap();
            }
            let _ = std::fs::remove_dir_all(&scratch);
        }
        Some("verdicts") => {
            // input: a sequence of (PTR "text"); output: one word per input (ok | err | panic | parse)
            let input = std::fs::read_to_string(&args[2]).expect("read");
            let items = sexp::parse(&input).expect("parse");
            let mut out = std::io::BufWriter::new(std::fs::File::create(&args[3]).expect("create output"));
            let path = pyxis::grammar::ItemPath::from("m");
            for it in &items {
                let l = it.list().unwrap();
                let ptr: usize = l[0].atom().unwrap().parse().unwrap();
                let text = String::from_utf8_lossy(l[1].string().unwrap()).into_owned();
                let r = catch_unwind(AssertUnwindSafe(|| -> Result<anyhow::Result<()>, ()> {
                    let m = pyxis::parser::parse_str(&text).map_err(|_| ())?;
                    Ok((|| {
                        let mut st = pyxis::semantic::SemanticState::new(ptr);
                        st.add_module(&m, &path)?;
                        st.build()?;
                        Ok(())
                    })())
                }));
                let w = match r {
                    Ok(Ok(Ok(()))) => "ok",
                    Ok(Ok(Err(_))) => "err",
                    Ok(Err(())) => "parse",
                    Err(_) => "panic",
                };
                writeln!(out, "{}", w).unwrap();
            }
        }
        Some("syntax") => {
            // input: a sequence of (type "text") / (attrs "text"); output per line:
            //   (res REAL (toks TOKENS...))   REAL = (ok AST) | err
            let input = std::fs::read_to_string(&args[2]).expect("read");
            let items = sexp::parse(&input).expect("parse");
            let mut out = std::io::BufWriter::new(std::fs::File::create(&args[3]).expect("create output"));
            for it in &items {
                let l = it.list().unwrap();
                let kind = l[0].atom().unwrap();
                let text = String::from_utf8_lossy(l[1].string().unwrap()).into_owned();
                let toks = match text.parse::<proc_macro2::TokenStream>() {
                    Ok(ts) => format!("(toks{})", syntax_tokens(ts)),
                    Err(_) => "lexerror".to_string(),
                };
                let real = match kind {
                    "type" => match catch_unwind(AssertUnwindSafe(|| syn::parse_str::<pyxis::grammar::Type>(&text))) {
                        Ok(Ok(t)) => format!("(ok {})", ast::ty(&t)),
                        Ok(Err(_)) => "err".to_string(),
                        Err(_) => "panic".to_string(),
                    },
                    "module" => match catch_unwind(AssertUnwindSafe(|| pyxis::parser::parse_str(&text))) {
                        Ok(Ok(m)) => format!("(ok {})", ast::module(&m)),
                        Ok(Err(_)) => "err".to_string(),
                        Err(_) => "panic".to_string(),
                    },
                    // a leading item keeps a snippet that starts with `#!` from being read as module attributes
                    _ => match catch_unwind(AssertUnwindSafe(|| pyxis::parser::parse_str(&format!("type Z0; {} type T;", text)))) {
                        Ok(Ok(m)) => match m.definitions.get(1).map(|d| &d.inner) {
                            Some(pyxis::grammar::ItemDefinitionInner::Type(td)) if m.definitions.len() == 2 => {
                                format!("(ok {})", ast::attrs_sexp(&td.attributes))
                            }
                            _ => "err".to_string(),
                        },
                        Ok(Err(_)) => "err".to_string(),
                        Err(_) => "panic".to_string(),
                    },
                };
                writeln!(out, "(res {} {})", real, toks).unwrap();
            }
        }
        Some("snippets") => {
            // input: a sequence of quoted strings; output: one rsdump line per string
            let input = std::fs::read_to_string(&args[2]).expect("read snippets");
            let items = sexp::parse(&input).expect("parse snippets");
            let mut out = std::io::BufWriter::new(std::fs::File::create(&args[3]).expect("create output"));
            for it in &items {
                let text = String::from_utf8_lossy(it.string().unwrap_or_default()).into_owned();
                writeln!(out, "{}", rsdump::file(&text)).unwrap();
            }
        }
        Some("rsdump") => {
            let text = std::fs::read_to_string(&args[2]).expect("read");
            println!("{}", rsdump::file(&text));
        }
        _ => {
            eprintln!("usage: harness batch <cases> <results> | rsdump <file.rs>");
            std::process::exit(2);
        }
    }
}
