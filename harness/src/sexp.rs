//! Minimal S-expression reader/writer shared by all harness sub-commands.
//! Atoms: bare words (any bytes except whitespace, parens and the double quote), quoted strings
//! with the escapes \\ \" \n and \xHH (one byte, so strings are byte sequences, as in the Coq model).

#[derive(Debug, Clone, PartialEq)]
pub enum Sexp {
    Atom(String),
    Str(Vec<u8>),
    List(Vec<Sexp>),
}

pub fn quote_bytes(bytes: &[u8]) -> String {
    let mut out = String::with_capacity(bytes.len() + 2);
    out.push('"');
    for &b in bytes {
        match b {
            b'"' => out.push_str("\\\""),
            b'\\' => out.push_str("\\\\"),
            b'\n' => out.push_str("\\n"),
            0x20..=0x7e => out.push(b as char),
            _ => out.push_str(&format!("\\x{:02x}", b)),
        }
    }
    out.push('"');
    out
}

pub fn quote(s: &str) -> String {
    quote_bytes(s.as_bytes())
}

pub fn parse(input: &str) -> Result<Vec<Sexp>, String> {
    let b = input.as_bytes();
    let mut pos = 0usize;
    let mut stack: Vec<Vec<Sexp>> = vec![vec![]];
    while pos < b.len() {
        let c = b[pos];
        match c {
            b' ' | b'\t' | b'\r' | b'\n' => pos += 1,
            b'(' => {
                stack.push(vec![]);
                pos += 1;
            }
            b')' => {
                let l = stack.pop().ok_or("unbalanced )")?;
                stack
                    .last_mut()
                    .ok_or("unbalanced )")?
                    .push(Sexp::List(l));
                pos += 1;
            }
            b'"' => {
                pos += 1;
                let mut s = vec![];
                loop {
                    if pos >= b.len() {
                        return Err("unterminated string".into());
                    }
                    match b[pos] {
                        b'"' => {
                            pos += 1;
                            break;
                        }
                        b'\\' => {
                            pos += 1;
                            match b.get(pos) {
                                Some(b'n') => {
                                    s.push(b'\n');
                                    pos += 1
                                }
                                Some(b'\\') => {
                                    s.push(b'\\');
                                    pos += 1
                                }
                                Some(b'"') => {
                                    s.push(b'"');
                                    pos += 1
                                }
                                Some(b'x') => {
                                    let h = std::str::from_utf8(&b[pos + 1..pos + 3])
                                        .map_err(|e| e.to_string())?;
                                    s.push(u8::from_str_radix(h, 16).map_err(|e| e.to_string())?);
                                    pos += 3;
                                }
                                _ => return Err("bad escape".into()),
                            }
                        }
                        other => {
                            s.push(other);
                            pos += 1
                        }
                    }
                }
                stack.last_mut().unwrap().push(Sexp::Str(s));
            }
            _ => {
                let start = pos;
                while pos < b.len() && !matches!(b[pos], b' ' | b'\t' | b'\r' | b'\n' | b'(' | b')' | b'"')
                {
                    pos += 1;
                }
                stack
                    .last_mut()
                    .unwrap()
                    .push(Sexp::Atom(String::from_utf8_lossy(&b[start..pos]).into_owned()));
            }
        }
    }
    if stack.len() != 1 {
        return Err("unbalanced (".into());
    }
    Ok(stack.pop().unwrap())
}

impl Sexp {
    pub fn list(&self) -> Option<&[Sexp]> {
        match self {
            Sexp::List(l) => Some(l),
            _ => None,
        }
    }
    pub fn atom(&self) -> Option<&str> {
        match self {
            Sexp::Atom(a) => Some(a),
            _ => None,
        }
    }
    pub fn string(&self) -> Option<&[u8]> {
        match self {
            Sexp::Str(s) => Some(s),
            _ => None,
        }
    }
    /// For a list `(tag ...)` returns the rest when the head atom is `tag`.
    pub fn tagged(&self, tag: &str) -> Option<&[Sexp]> {
        let l = self.list()?;
        (l.first()?.atom()? == tag).then(|| &l[1..])
    }
    /// Finds `(tag ...)` among the elements of this list.
    pub fn field(&self, tag: &str) -> Option<&[Sexp]> {
        self.list()?.iter().find_map(|e| e.tagged(tag))
    }
}
