//! Emitted Rust file -> structured S-expression ("RAST" interchange form).
//! Items are structured with syn; types, attribute bodies and function bodies are token lists.
use crate::sexp::quote;
use proc_macro2::{Delimiter, TokenStream, TokenTree};
use quote::ToTokens;

pub fn tokens(ts: TokenStream) -> String {
    let mut out = String::new();
    let mut tts: Vec<TokenTree> = ts.into_iter().collect();
    // prettyplease adds a trailing comma whenever it wraps a list over several lines; that is
    // formatting, not content, so a comma directly before a closing delimiter is dropped.
    if matches!(tts.last(), Some(TokenTree::Punct(p)) if p.as_char() == ',') {
        tts.pop();
    }
    for tt in tts {
        out.push(' ');
        match tt {
            TokenTree::Ident(i) => out += &i.to_string(),
            TokenTree::Punct(p) => out.push(p.as_char()),
            TokenTree::Literal(l) => {
                let text = l.to_string();
                match syn::parse_str::<syn::Lit>(&text) {
                    Ok(syn::Lit::Int(i)) => {
                        let suffix = if i.suffix().is_empty() { "-" } else { i.suffix() };
                        out += &format!("(i {} {})", i.base10_digits(), suffix)
                    }
                    Ok(syn::Lit::Str(s)) => out += &format!("(s {})", quote(&s.value())),
                    _ => out += &format!("(l {})", quote(&text)),
                }
            }
            TokenTree::Group(g) => {
                let d = match g.delimiter() {
                    Delimiter::Parenthesis => "paren",
                    Delimiter::Brace => "brace",
                    Delimiter::Bracket => "bracket",
                    Delimiter::None => "nodelim",
                };
                out += &format!("({}{})", d, tokens(g.stream()));
            }
        }
    }
    out
}

fn attrs(attrs: &[syn::Attribute]) -> String {
    let mut out = String::from("(attrs");
    for a in attrs {
        let style = match a.style {
            syn::AttrStyle::Outer => "outer",
            syn::AttrStyle::Inner(_) => "inner",
        };
        out += &format!(" (attr {}{})", style, tokens(a.meta.to_token_stream()));
    }
    out.push(')');
    out
}

fn vis(v: &syn::Visibility) -> String {
    match v {
        syn::Visibility::Public(_) => "pub".into(),
        syn::Visibility::Inherited => "priv".into(),
        other => format!("(vis{})", tokens(other.to_token_stream())),
    }
}

fn func(
    a: &[syn::Attribute],
    v: &syn::Visibility,
    sig: &syn::Signature,
    block: &syn::Block,
) -> String {
    let mut quals = String::new();
    if sig.constness.is_some() {
        quals += " const";
    }
    if sig.asyncness.is_some() {
        quals += " async";
    }
    if sig.unsafety.is_some() {
        quals += " unsafe";
    }
    if let Some(abi) = &sig.abi {
        quals += &format!(" (abi{})", tokens(abi.to_token_stream()));
    }
    let mut params = String::new();
    for p in &sig.inputs {
        match p {
            syn::FnArg::Receiver(r) => {
                if r.reference.is_some() && r.colon_token.is_none() {
                    params += if r.mutability.is_some() { " mutself" } else { " self" };
                } else {
                    params += &format!(" (recv{})", tokens(r.to_token_stream()));
                }
            }
            syn::FnArg::Typed(t) => {
                params += &format!(
                    " (arg (pat{}) (ty{}))",
                    tokens(t.pat.to_token_stream()),
                    tokens(t.ty.to_token_stream())
                );
            }
        }
    }
    let generics = if sig.generics.params.is_empty() && sig.generics.where_clause.is_none() {
        String::new()
    } else {
        format!(" (generics{})", tokens(sig.generics.to_token_stream()))
    };
    let ret = match &sig.output {
        syn::ReturnType::Default => "(ret)".to_string(),
        syn::ReturnType::Type(_, t) => format!("(ret{})", tokens(t.to_token_stream())),
    };
    let mut body = String::new();
    for s in &block.stmts {
        body += &tokens(s.to_token_stream());
    }
    format!(
        "(fn {} {} (quals{}) {}{} (params{}) {} (body{}))",
        attrs(a),
        vis(v),
        quals,
        sig.ident,
        generics,
        params,
        ret,
        body
    )
}

fn item(i: &syn::Item) -> String {
    match i {
        syn::Item::Struct(s) if s.generics.params.is_empty() => {
            let mut out = format!("(struct {} {} {}", attrs(&s.attrs), vis(&s.vis), s.ident);
            match &s.fields {
                syn::Fields::Named(n) => {
                    for f in &n.named {
                        out += &format!(
                            " (field {} {} {} (ty{}))",
                            attrs(&f.attrs),
                            vis(&f.vis),
                            f.ident.as_ref().unwrap(),
                            tokens(f.ty.to_token_stream())
                        );
                    }
                }
                syn::Fields::Unit => out += " unit",
                syn::Fields::Unnamed(u) => out += &format!(" (tuple{})", tokens(u.to_token_stream())),
            }
            out.push(')');
            out
        }
        syn::Item::Enum(e) if e.generics.params.is_empty() => {
            let mut out = format!("(enum {} {} {}", attrs(&e.attrs), vis(&e.vis), e.ident);
            for v in &e.variants {
                let disc = match &v.discriminant {
                    None => "(disc)".to_string(),
                    Some((_, e)) => format!("(disc{})", tokens(e.to_token_stream())),
                };
                let fields = match &v.fields {
                    syn::Fields::Unit => String::new(),
                    other => format!(" (fields{})", tokens(other.to_token_stream())),
                };
                out += &format!(" (variant {} {} {}{})", attrs(&v.attrs), v.ident, disc, fields);
            }
            out.push(')');
            out
        }
        syn::Item::Fn(f) => func(&f.attrs, &f.vis, &f.sig, &f.block),
        syn::Item::Impl(im) if im.generics.params.is_empty() => {
            let tr = match &im.trait_ {
                None => "notrait".to_string(),
                Some((bang, p, _)) => format!(
                    "(trait{}{})",
                    if bang.is_some() { " !" } else { "" },
                    tokens(p.to_token_stream())
                ),
            };
            let mut out = format!(
                "(impl {} {} (self{})",
                attrs(&im.attrs),
                tr,
                tokens(im.self_ty.to_token_stream())
            );
            if im.unsafety.is_some() {
                out += " unsafe";
            }
            for it in &im.items {
                out.push(' ');
                match it {
                    syn::ImplItem::Fn(f) => out += &func(&f.attrs, &f.vis, &f.sig, &f.block),
                    other => out += &format!("(other{})", tokens(other.to_token_stream())),
                }
            }
            out.push(')');
            out
        }
        syn::Item::Const(c) => format!(
            "(const {} {} {} (ty{}) (val{}))",
            attrs(&c.attrs),
            vis(&c.vis),
            c.ident,
            tokens(c.ty.to_token_stream()),
            tokens(c.expr.to_token_stream())
        ),
        other => format!("(other{})", tokens(other.to_token_stream())),
    }
}

pub fn file(text: &str) -> String {
    match syn::parse_file(text) {
        Err(e) => format!("(unparsable {})", quote(&e.to_string())),
        Ok(f) => {
            let mut out = format!("(file {}", attrs(&f.attrs));
            for i in &f.items {
                out.push(' ');
                out += &item(i);
            }
            out.push(')');
            out
        }
    }
}
