(* Driver for the extracted model: reads a file of cases, writes one result line per case. *)
let explode (s : string) : char list = List.init (String.length s) (String.get s)
let implode (l : char list) : string =
  let b = Buffer.create 1024 in List.iter (Buffer.add_char b) l; Buffer.contents b
let read_file f = let ic = open_in_bin f in let n = in_channel_length ic in
  let s = really_input_string ic n in close_in ic; s
let () =
  let input = read_file Sys.argv.(1) in
  let oc = open_out_bin Sys.argv.(2) in
  (* one case per line keeps memory flat and lets a bad line be reported by number *)
  let lines = String.split_on_char '\n' input in
  List.iter (fun line ->
    if String.trim line <> "" then
      List.iter (fun r -> output_string oc (implode r); output_char oc '\n')
        (Ocaml_model.run_cases (explode line))) lines;
  close_out oc
