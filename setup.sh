#!/bin/sh
# Builds everything the checks need, offline, from files on disk only.
set -e
cd "$(dirname "$0")"
export CARGO_NET_OFFLINE=true
# 1. Coq development: full .vo build (never -vos), including extraction of the model
( cd coq && coq_makefile -f _CoqProject -o Makefile >/dev/null 2>&1 && timeout 3000 make -j16 )
# 2. extracted model runner
cp coq/ocaml_model.ml coq/ocaml_model.mli ocaml/
( cd ocaml && timeout 600 ocamlfind ocamlopt -O2 -w -a ocaml_model.mli ocaml_model.ml main.ml -o model_runner )
# 3. harness around the real pyxis, hooks on
( cd harness && cp /repo/Cargo.lock Cargo.lock.repo 2>/dev/null || true
  RUSTFLAGS="--cfg pyxis_verif" CARGO_TARGET_DIR="$PWD/target" timeout 1200 cargo build --offline -q )
echo "setup ok"
